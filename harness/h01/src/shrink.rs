//! Shrinking of a failing (program, input): type-preserving one-step reductions (delete a
//! statement, replace an expression by one of its operands / branches or by a literal of its
//! type, simplify an argument), greedily, each round compiled as one crate and judged by the
//! independent interpreter against the real pipeline.
use std::collections::BTreeMap;
use std::path::Path;

use crate::ast::*;
use crate::interp::{Interp, Outcome};
use crate::run::{Config, Obs};
use num_bigint::BigInt;
use num_traits::{One, Zero};

type VarTypes = BTreeMap<usize, Ty>;

fn collect_vars(p: &Program, f: &FnDecl) -> VarTypes {
    let mut m = VarTypes::new();
    for pa in &f.params {
        m.insert(pa.name, pa.ty.clone());
    }
    fn go(p: &Program, e: &Expr, m: &mut VarTypes) {
        match e {
            Expr::Block(stmts, tail) => {
                for s in stmts {
                    match s {
                        Stmt::Let(x, t, e) => {
                            m.insert(*x, t.clone());
                            go(p, e, m);
                        }
                        Stmt::LetTup(xs, t, e) => {
                            for (x, mt) in xs.iter().zip(p.members(t)) {
                                m.insert(*x, mt);
                            }
                            go(p, e, m);
                        }
                        Stmt::Expr(e) => go(p, e, m),
                    }
                }
                go(p, tail, m);
            }
            Expr::Match(t, a, arms) => {
                go(p, a, m);
                let vs = p.variants(t);
                for (i, (x, b)) in arms.iter().enumerate() {
                    m.insert(*x, vs[i].clone());
                    go(p, b, m);
                }
            }
            _ => for_children(e, &mut |c| go(p, c, m)),
        }
    }
    go(p, &f.body, &mut m);
    m
}

pub fn for_children(e: &Expr, f: &mut dyn FnMut(&Expr)) {
    match e {
        Expr::Lit(..) | Expr::Bool(_) | Expr::Var(_) | Expr::Continue(_) | Expr::Panic(..) | Expr::ArrNew(_) => {}
        Expr::ArrPop(_) | Expr::ArrLen(_) => {}
        Expr::Un(_, _, a)
        | Expr::Cast(_, _, _, a)
        | Expr::Proj(_, _, a)
        | Expr::Enum(_, _, a)
        | Expr::Assign(_, a)
        | Expr::Break(_, a)
        | Expr::Return(_, a)
        | Expr::Try(a)
        | Expr::Unwrap(_, _, a)
        | Expr::Assert(a, _)
        | Expr::ArrAppend(_, a)
        | Expr::ArrAt(_, a)
        | Expr::Snap(a)
        | Expr::Desnap(a)
        | Expr::BoxNew(a)
        | Expr::Unbox(a)
        | Expr::Loop(_, _, a) => f(a),
        Expr::Bin(_, _, a, b) | Expr::Arith(_, _, _, a, b) | Expr::AndAlso(a, b) | Expr::OrElse(a, b) | Expr::While(_, a, b) => {
            f(a);
            f(b)
        }
        Expr::Tup(_, es) => es.iter().for_each(|e| f(e)),
        Expr::Match(_, a, arms) => {
            f(a);
            arms.iter().for_each(|(_, b)| f(b))
        }
        Expr::MatchInt(_, a, arms, d) => {
            f(a);
            arms.iter().for_each(|b| f(b));
            f(d)
        }
        Expr::If(c, a, b) => {
            f(c);
            f(a);
            f(b)
        }
        Expr::Block(stmts, tail) => {
            for s in stmts {
                match s {
                    Stmt::Let(_, _, e) | Stmt::LetTup(_, _, e) | Stmt::Expr(e) => f(e),
                }
            }
            f(tail)
        }
        Expr::Call(_, args) => {
            for a in args {
                if let Arg::Val(e) = a {
                    f(e)
                }
            }
        }
    }
}

/// rebuilds `e` with every child mapped
fn map_children(e: &Expr, f: &mut dyn FnMut(&Expr) -> Expr) -> Expr {
    let mut b = |x: &Expr| Box::new(f(x));
    match e {
        Expr::Lit(..) | Expr::Bool(_) | Expr::Var(_) | Expr::Continue(_) | Expr::Panic(..) | Expr::ArrNew(_) => e.clone(),
        Expr::ArrPop(_) | Expr::ArrLen(_) => e.clone(),
        Expr::Un(o, t, a) => Expr::Un(*o, t.clone(), b(a)),
        Expr::Cast(k, x, y, a) => Expr::Cast(*k, x.clone(), y.clone(), b(a)),
        Expr::Proj(t, i, a) => Expr::Proj(t.clone(), *i, b(a)),
        Expr::Enum(t, i, a) => Expr::Enum(t.clone(), *i, b(a)),
        Expr::Assign(x, a) => Expr::Assign(*x, b(a)),
        Expr::Break(t, a) => Expr::Break(t.clone(), b(a)),
        Expr::Return(t, a) => Expr::Return(t.clone(), b(a)),
        Expr::Try(a) => Expr::Try(b(a)),
        Expr::Unwrap(m, r, a) => Expr::Unwrap(m.clone(), *r, b(a)),
        Expr::Assert(a, m) => Expr::Assert(b(a), m.clone()),
        Expr::ArrAppend(x, a) => Expr::ArrAppend(*x, b(a)),
        Expr::ArrAt(x, a) => Expr::ArrAt(*x, b(a)),
        Expr::Snap(a) => Expr::Snap(b(a)),
        Expr::Desnap(a) => Expr::Desnap(b(a)),
        Expr::BoxNew(a) => Expr::BoxNew(b(a)),
        Expr::Unbox(a) => Expr::Unbox(b(a)),
        Expr::Arith(k, o, t, x, y) => {
            let x2 = b(x);
            let y2 = b(y);
            Expr::Arith(*k, *o, t.clone(), x2, y2)
        }
        Expr::Loop(l, t, a) => Expr::Loop(*l, t.clone(), b(a)),
        Expr::Bin(o, t, x, y) => {
            let x2 = b(x);
            let y2 = b(y);
            Expr::Bin(*o, t.clone(), x2, y2)
        }
        Expr::AndAlso(x, y) => {
            let x2 = b(x);
            let y2 = b(y);
            Expr::AndAlso(x2, y2)
        }
        Expr::OrElse(x, y) => {
            let x2 = b(x);
            let y2 = b(y);
            Expr::OrElse(x2, y2)
        }
        Expr::While(l, x, y) => {
            let x2 = b(x);
            let y2 = b(y);
            Expr::While(*l, x2, y2)
        }
        Expr::Tup(t, es) => Expr::Tup(t.clone(), es.iter().map(|e| f(e)).collect()),
        Expr::Match(t, a, arms) => {
            let a2 = Box::new(f(a));
            Expr::Match(t.clone(), a2, arms.iter().map(|(x, e)| (*x, f(e))).collect())
        }
        Expr::MatchInt(t, a, arms, d) => {
            let a2 = Box::new(f(a));
            let arms2 = arms.iter().map(|e| f(e)).collect();
            Expr::MatchInt(t.clone(), a2, arms2, Box::new(f(d)))
        }
        Expr::If(c, x, y) => {
            let c2 = Box::new(f(c));
            let x2 = Box::new(f(x));
            Expr::If(c2, x2, Box::new(f(y)))
        }
        Expr::Block(stmts, tail) => {
            let s2 = stmts
                .iter()
                .map(|s| match s {
                    Stmt::Let(x, t, e) => Stmt::Let(*x, t.clone(), f(e)),
                    Stmt::LetTup(xs, t, e) => Stmt::LetTup(xs.clone(), t.clone(), f(e)),
                    Stmt::Expr(e) => Stmt::Expr(f(e)),
                })
                .collect();
            Expr::Block(s2, Box::new(f(tail)))
        }
        Expr::Call(g, args) => Expr::Call(
            *g,
            args.iter()
                .map(|a| match a {
                    Arg::Val(e) => Arg::Val(f(e)),
                    Arg::Ref(x) => Arg::Ref(*x),
                })
                .collect(),
        ),
    }
}

pub fn size(e: &Expr) -> usize {
    let mut n = 1;
    for_children(e, &mut |c| n += size(c));
    n
}

fn uses_var(e: &Expr, x: usize) -> bool {
    let here = match e {
        Expr::Var(y) | Expr::Assign(y, _) | Expr::ArrAppend(y, _) | Expr::ArrPop(y) | Expr::ArrLen(y) | Expr::ArrAt(y, _) => {
            *y == x
        }
        Expr::Call(_, args) => args.iter().any(|a| matches!(a, Arg::Ref(y) if *y == x)),
        _ => false,
    };
    let mut r = here;
    for_children(e, &mut |c| r = r || uses_var(c, x));
    r
}

fn type_of(p: &Program, vt: &VarTypes, e: &Expr) -> Option<Ty> {
    Some(match e {
        Expr::Lit(t, _) => t.clone(),
        Expr::Bool(_) | Expr::AndAlso(..) | Expr::OrElse(..) => Ty::Bool,
        Expr::Var(x) => vt.get(x)?.clone(),
        Expr::Un(_, t, _) => t.clone(),
        Expr::Bin(o, t, _, _) => match o {
            Binop::Eq | Binop::Ne | Binop::Lt | Binop::Le | Binop::Gt | Binop::Ge => Ty::Bool,
            _ => t.clone(),
        },
        Expr::Cast(CastK::Into, _, to, _) => to.clone(),
        Expr::Cast(CastK::Try, _, to, _) => Ty::Opt(Box::new(to.clone())),
        Expr::Tup(t, _) | Expr::Enum(t, _, _) => t.clone(),
        Expr::Proj(t, i, _) => p.members(t).get(*i)?.clone(),
        Expr::Match(_, _, arms) => type_of(p, vt, &arms.first()?.1)?,
        Expr::MatchInt(_, _, _, d) => type_of(p, vt, d)?,
        Expr::If(_, a, _) => type_of(p, vt, a)?,
        Expr::Block(_, tail) => type_of(p, vt, tail)?,
        Expr::Assign(..) | Expr::While(..) | Expr::Assert(..) | Expr::ArrAppend(..) => Ty::unit(),
        Expr::Loop(_, t, _) => t.clone(),
        Expr::Break(t, _) | Expr::Continue(t) | Expr::Return(t, _) | Expr::Panic(t, _) => t.clone(),
        Expr::Call(f, _) => p.fns[*f].ret.clone(),
        Expr::Try(a) | Expr::Unwrap(_, _, a) => p.variants(&type_of(p, vt, a)?).first()?.clone(),
        Expr::ArrNew(t) => Ty::Arr(Box::new(t.clone())),
        Expr::ArrPop(x) => Ty::Opt(Box::new(elem(vt.get(x)?)?)),
        Expr::ArrLen(_) => Ty::Int(Ity::U32),
        Expr::ArrAt(x, _) => elem(vt.get(x)?)?,
        Expr::Snap(a) => Ty::Snap(Box::new(type_of(p, vt, a)?)),
        Expr::BoxNew(a) => Ty::Boxed(Box::new(type_of(p, vt, a)?)),
        Expr::Unbox(a) => match type_of(p, vt, a)? {
            Ty::Boxed(t) => *t,
            _ => return None,
        },
        Expr::Arith(k, _, t, _, _) => match k {
            ArithK::Wrapping | ArithK::Saturating => t.clone(),
            ArithK::Overflowing => Ty::Tup(vec![t.clone(), Ty::Bool]),
            ArithK::Checked => Ty::Opt(Box::new(t.clone())),
        },
        Expr::Desnap(a) => match type_of(p, vt, a)? {
            Ty::Snap(t) => *t,
            _ => return None,
        },
    })
}
fn elem(t: &Ty) -> Option<Ty> {
    match t {
        Ty::Arr(t) => Some((**t).clone()),
        Ty::Snap(s) => elem(s),
        _ => None,
    }
}

fn default_of(p: &Program, t: &Ty, alt: bool) -> Option<Expr> {
    Some(match t {
        Ty::Int(_) | Ty::Felt => Expr::Lit(t.clone(), if alt { BigInt::one() } else { BigInt::zero() }),
        Ty::Bool => Expr::Bool(alt),
        Ty::Tup(_) | Ty::Struct(_) => {
            Expr::Tup(t.clone(), p.members(t).iter().map(|m| default_of(p, m, alt)).collect::<Option<Vec<_>>>()?)
        }
        Ty::Enum(_) | Ty::Opt(_) | Ty::Res(..) => {
            let vs = p.variants(t);
            let i = if alt && vs.len() > 1 { 1 } else { 0 };
            let pl = if matches!(t, Ty::Opt(_)) && i == 1 { unit_expr() } else { default_of(p, &vs[i], false)? };
            Expr::Enum(t.clone(), i, Box::new(pl))
        }
        Ty::Snap(t) => Expr::Snap(Box::new(default_of(p, t, alt)?)),
        Ty::Boxed(t) => Expr::BoxNew(Box::new(default_of(p, t, alt)?)),
        Ty::Arr(_) => return None,
    })
}

/// the reductions of one node (type preserving)
fn node_variants(p: &Program, vt: &VarTypes, e: &Expr) -> Vec<Expr> {
    let mut out = vec![];
    match e {
        Expr::If(_, a, b) => {
            out.push((**a).clone());
            out.push((**b).clone());
        }
        Expr::Bin(o, _, a, b) => {
            if !matches!(o, Binop::Eq | Binop::Ne | Binop::Lt | Binop::Le | Binop::Gt | Binop::Ge) {
                out.push((**a).clone());
                out.push((**b).clone());
            }
        }
        Expr::AndAlso(a, b) | Expr::OrElse(a, b) => {
            out.push((**a).clone());
            out.push((**b).clone());
        }
        Expr::Un(_, _, a) => out.push((**a).clone()),
        Expr::Block(stmts, tail) => {
            if stmts.is_empty() {
                out.push((**tail).clone());
            }
            // drop the second half / first half / each statement
            let n = stmts.len();
            let removable = |j: usize| -> bool {
                match &stmts[j] {
                    Stmt::LetTup(..) => false,
                    Stmt::Let(x, _, _) => {
                        // a later re-binding of the same name does not make the name unused
                        !stmts[j + 1..].iter().any(|s| match s {
                            Stmt::Let(_, _, e) | Stmt::LetTup(_, _, e) | Stmt::Expr(e) => uses_var(e, *x),
                        }) && !uses_var(tail, *x)
                    }
                    Stmt::Expr(_) => true,
                }
            };
            if n >= 2 {
                for (lo, hi) in [(n / 2, n), (0, n / 2)] {
                    let keep: Vec<Stmt> =
                        stmts.iter().enumerate().filter(|(j, _)| *j < lo || *j >= hi).map(|(_, s)| s.clone()).collect();
                    let ok = (lo..hi).all(|j| match &stmts[j] {
                        Stmt::LetTup(..) => false,
                        Stmt::Let(x, _, _) => {
                            !keep.iter().any(|s| match s {
                                Stmt::Let(_, _, e) | Stmt::LetTup(_, _, e) | Stmt::Expr(e) => uses_var(e, *x),
                            }) && !uses_var(tail, *x)
                        }
                        _ => true,
                    });
                    if ok {
                        out.push(Expr::Block(keep, tail.clone()));
                    }
                }
            }
            for j in 0..n {
                if removable(j) {
                    let mut s2 = stmts.clone();
                    s2.remove(j);
                    out.push(Expr::Block(s2, tail.clone()));
                }
            }
        }
        Expr::Match(t, _, arms) => {
            let vs = p.variants(t);
            for (i, (x, b)) in arms.iter().enumerate() {
                if let Some(d) = default_of(p, &vs[i], false) {
                    out.push(Expr::Block(vec![Stmt::Let(*x, vs[i].clone(), d)], Box::new(b.clone())));
                }
            }
        }
        Expr::MatchInt(_, _, arms, d) => {
            out.push((**d).clone());
            out.extend(arms.iter().cloned());
        }
        Expr::Desnap(a) => {
            if let Expr::Snap(b) = &**a {
                out.push((**b).clone());
            }
        }
        _ => {}
    }
    if !matches!(e, Expr::Lit(..) | Expr::Bool(_)) {
        if let Some(t) = type_of(p, vt, e) {
            for alt in [false, true] {
                if let Some(d) = default_of(p, &t, alt) {
                    if &d != e {
                        out.push(d);
                    }
                }
            }
        }
    }
    out
}

fn count_nodes(e: &Expr) -> usize {
    size(e)
}

/// replaces node number `target` (pre-order) of `e` by `new`
fn replace_node(e: &Expr, target: usize, counter: &mut usize, new: &Expr) -> Expr {
    let me = *counter;
    *counter += 1;
    if me == target {
        // skip the numbering of the replaced subtree
        *counter += count_nodes(e) - 1;
        return new.clone();
    }
    map_children(e, &mut |c| replace_node(c, target, counter, new))
}
fn nth_node<'a>(e: &'a Expr, target: usize, counter: &mut usize) -> Option<&'a Expr> {
    let me = *counter;
    *counter += 1;
    if me == target {
        return Some(e);
    }
    let mut found: Option<&'a Expr> = None;
    // manual descent to keep lifetimes simple
    let mut kids: Vec<&'a Expr> = vec![];
    collect_children(e, &mut kids);
    for k in kids {
        if found.is_none() {
            found = nth_node(k, target, counter);
        }
    }
    found
}
fn collect_children<'a>(e: &'a Expr, out: &mut Vec<&'a Expr>) {
    match e {
        Expr::Lit(..) | Expr::Bool(_) | Expr::Var(_) | Expr::Continue(_) | Expr::Panic(..) | Expr::ArrNew(_) => {}
        Expr::ArrPop(_) | Expr::ArrLen(_) => {}
        Expr::Un(_, _, a)
        | Expr::Cast(_, _, _, a)
        | Expr::Proj(_, _, a)
        | Expr::Enum(_, _, a)
        | Expr::Assign(_, a)
        | Expr::Break(_, a)
        | Expr::Return(_, a)
        | Expr::Try(a)
        | Expr::Unwrap(_, _, a)
        | Expr::Assert(a, _)
        | Expr::ArrAppend(_, a)
        | Expr::ArrAt(_, a)
        | Expr::Snap(a)
        | Expr::Desnap(a)
        | Expr::BoxNew(a)
        | Expr::Unbox(a)
        | Expr::Loop(_, _, a) => out.push(a),
        Expr::Bin(_, _, a, b) | Expr::Arith(_, _, _, a, b) | Expr::AndAlso(a, b) | Expr::OrElse(a, b) | Expr::While(_, a, b) => {
            out.push(a);
            out.push(b)
        }
        Expr::Tup(_, es) => out.extend(es.iter()),
        Expr::Match(_, a, arms) => {
            out.push(a);
            out.extend(arms.iter().map(|(_, b)| b))
        }
        Expr::MatchInt(_, a, arms, d) => {
            out.push(a);
            out.extend(arms.iter());
            out.push(d)
        }
        Expr::If(c, a, b) => {
            out.push(c);
            out.push(a);
            out.push(b)
        }
        Expr::Block(stmts, tail) => {
            for s in stmts {
                match s {
                    Stmt::Let(_, _, e) | Stmt::LetTup(_, _, e) | Stmt::Expr(e) => out.push(e),
                }
            }
            out.push(tail)
        }
        Expr::Call(_, args) => {
            for a in args {
                if let Arg::Val(e) = a {
                    out.push(e)
                }
            }
        }
    }
}

/// all one-step reductions of the program (bodies), biggest subtrees first
pub fn reductions(p: &Program) -> Vec<Program> {
    let mut out = vec![];
    for fi in (0..p.fns.len()).rev() {
        let f = &p.fns[fi];
        let vt = collect_vars(p, f);
        let n = count_nodes(&f.body);
        for i in 0..n {
            let mut c = 0;
            let Some(node) = nth_node(&f.body, i, &mut c) else { continue };
            for v in node_variants(p, &vt, node) {
                let mut c2 = 0;
                let body = replace_node(&f.body, i, &mut c2, &v);
                if body != f.body {
                    let mut q = p.clone();
                    q.fns[fi].body = body;
                    out.push(q);
                }
            }
        }
    }
    out
}

fn arg_reductions(args: &[Val]) -> Vec<Vec<Val>> {
    fn simpler(v: &Val) -> Vec<Val> {
        match v {
            Val::Int(z) => {
                let mut o = vec![];
                if !z.is_zero() {
                    o.push(Val::Int(BigInt::zero()));
                    if !z.is_one() {
                        o.push(Val::Int(BigInt::one()));
                        o.push(Val::Int(z / 2));
                    }
                }
                o
            }
            Val::Bool(b) => {
                if *b {
                    vec![Val::Bool(false)]
                } else {
                    vec![]
                }
            }
            Val::Tup(vs) => {
                let mut o = vec![];
                for (i, x) in vs.iter().enumerate() {
                    for s in simpler(x) {
                        let mut w = vs.clone();
                        w[i] = s;
                        o.push(Val::Tup(w));
                    }
                }
                o
            }
        }
    }
    let mut out = vec![];
    for (i, a) in args.iter().enumerate() {
        for s in simpler(a) {
            let mut w = args.to_vec();
            w[i] = s;
            out.push(w);
        }
    }
    out
}

pub fn prog_size(p: &Program) -> usize {
    p.fns.iter().map(|f| size(&f.body)).sum()
}

fn flatten_args(args: &[Val]) -> Vec<BigInt> {
    let mut out = vec![];
    for a in args {
        a.flatten(&mut out);
    }
    out
}

/// Greedy shrinking.  Returns (program, args, expected, observed, rounds).
pub fn shrink(out: &Path, p0: &Program, args0: &[Val], n: usize) -> (Program, Vec<Val>, Outcome, Obs, usize) {
    let dir = out.join("shrink");
    std::fs::create_dir_all(&dir).ok();
    let mut cur = p0.clone();
    let mut args = args0.to_vec();
    let mut rounds = 0;
    let t0 = std::time::Instant::now();
    let mut last: Option<(Outcome, Obs)> = None;
    while rounds < 14 && t0.elapsed().as_secs() < 240 {
        rounds += 1;
        let mut cands: Vec<(Program, Vec<Val>)> = vec![];
        for q in reductions(&cur) {
            cands.push((q, args.clone()));
        }
        for a in arg_reductions(&args) {
            cands.push((cur.clone(), a));
        }
        // judged by the interpreter: keep candidates that have a meaning
        let mut keep: Vec<(Program, Vec<Val>, Outcome)> = vec![];
        for (k, (mut q, a)) in cands.into_iter().enumerate() {
            q.tag = format!("s{n}r{rounds}k{k}");
            let e = Interp::new(&q).run(q.entry(), &a);
            if !matches!(e, Outcome::Stuck(_)) {
                keep.push((q, a, e));
            }
            if keep.len() >= 120 {
                break;
            }
        }
        if keep.is_empty() {
            break;
        }
        let progs: Vec<Program> = keep.iter().map(|k| k.0.clone()).collect();
        let mut rejected = vec![];
        let Ok((compiled, alive)) =
            crate::compile_programs(&dir, &format!("shrink_{n}_{rounds}"), &progs, &Config::base(), &mut rejected)
        else {
            break;
        };
        let mut best: Option<(usize, usize)> = None;
        let mut best_obs = None;
        for i in alive {
            let (q, a, e) = &keep[i];
            let obs = crate::run::run(&compiled, &format!("::{}", q.fn_name(q.entry())), &flatten_args(a));
            if !crate::agrees(e, &obs) {
                let sz = prog_size(q) * 100 + a.iter().map(|v| v.show().len()).sum::<usize>();
                if best.map(|(_, s)| sz < s).unwrap_or(true) {
                    best = Some((i, sz));
                    best_obs = Some(obs);
                }
            }
        }
        match best {
            Some((i, _)) => {
                cur = keep[i].0.clone();
                args = keep[i].1.clone();
                last = Some((keep[i].2.clone(), best_obs.unwrap()));
            }
            None => break,
        }
    }
    let (e, o) = match last {
        Some(x) => x,
        None => {
            // nothing smaller fails: report the original, re-evaluated
            let e = Interp::new(&cur).run(cur.entry(), &args);
            (e, Obs::Error("not re-run (no smaller failing program)".into()))
        }
    };
    (cur, args, e, o, rounds)
}

/// Shrinks a program that a configuration fails to compile (error text containing `needle`),
/// first-fit over the one-step reductions.  Used to prepare a small repro for a finding.
pub fn shrink_compile_failure(out: &Path, p0: &Program, needle: &str) -> Program {
    use cairo_lang_filesystem::ids::CrateInput;
    use cairo_lang_sierra_generator::db::SierraGenGroup;
    use cairo_lang_diagnostics::ToOption;
    let dir = out.join("shrinkcfg");
    std::fs::create_dir_all(&dir).ok();
    let cfg = Config { opt: crate::run::OptKind::Disabled, skip_const_folding: false, match_threshold: None, gas: Some(crate::run::Solver::Linear) };
    let mut db = crate::run::build_db(&cfg);
    let mut counter = 0usize;
    let mut fails = |q: &Program, db: &mut cairo_lang_compiler::db::RootDatabase| -> bool {
        counter += 1;
        let (src, _) = crate::crate_source(std::slice::from_ref(q));
        let path = dir.join(format!("cand_{counter}.cairo"));
        std::fs::write(&path, src).unwrap();
        let Ok(inputs) = cairo_lang_compiler::project::setup_project(db, &path) else { return false };
        let mut s = String::new();
        let bad = cairo_lang_compiler::diagnostics::DiagnosticsReporter::write_to_string(&mut s)
            .with_crates(&inputs)
            .allow_warnings()
            .check(db);
        if bad {
            return false;
        }
        let dbr = &*db;
        let crate_ids = CrateInput::into_crate_ids(dbr, inputs);
        let Some(prog) = dbr.get_sierra_program(crate_ids).to_option().map(|p| p.clone()) else { return false };
        let meta = cairo_lang_sierra_to_casm::metadata::MetadataComputationConfig {
            linear_gas_solver: true,
            linear_ap_change_solver: false,
            skip_non_linear_solver_comparisons: true,
            ..Default::default()
        };
        match cairo_lang_runner::SierraCasmRunner::new(prog.program.clone(), Some(meta), Default::default(), None) {
            Ok(_) => false,
            Err(e) => format!("{e:?}").contains(needle),
        }
    };
    let mut cur = p0.clone();
    if !fails(&cur, &mut db) {
        eprintln!("the program does not fail under the configuration");
        return cur;
    }
    loop {
        let mut progressed = false;
        for q in reductions(&cur) {
            if prog_size(&q) < prog_size(&cur) && fails(&q, &mut db) {
                cur = q;
                progressed = true;
                break;
            }
        }
        if !progressed {
            break;
        }
    }
    cur
}
