//! A second, independent implementation of the reference semantics (same reading of the language
//! as coq/C01/Ref.v, written separately in Rust).  It is the harness-side oracle: it lets the
//! harness find and shrink failing (program, input) pairs without a round trip through Coq, and
//! it tells a wrong Coq model (interp agrees with the pipeline) from a wrong pipeline.
use crate::ast::*;
use num_bigint::BigInt;
use num_traits::{One, Signed, Zero};

#[derive(Clone, PartialEq, Eq, Debug)]
pub enum V {
    Int(BigInt),
    Bool(bool),
    Tup(Vec<V>),
    Enum(usize, Box<V>),
    Arr(Vec<V>),
}
impl V {
    pub fn unit() -> V {
        V::Tup(vec![])
    }
    pub fn from_val(v: &Val) -> V {
        match v {
            Val::Int(z) => V::Int(z.clone()),
            Val::Bool(b) => V::Bool(*b),
            Val::Tup(vs) => V::Tup(vs.iter().map(V::from_val).collect()),
        }
    }
}

#[derive(Clone, PartialEq, Eq, Debug)]
pub enum Outcome {
    Value(Vec<BigInt>),
    Panic(Vec<BigInt>),
    /// the interpreter could not give a meaning (generator bug or step limit)
    Stuck(String),
}

enum Ctl {
    Brk(V),
    Cont,
    Ret(V),
    Panic(Vec<BigInt>),
    Stuck(String),
}
type R = Result<V, Ctl>;

pub struct Interp<'a> {
    p: &'a Program,
    steps: u64,
    prime: BigInt,
}

fn stuck<T>(s: &str) -> Result<T, Ctl> {
    Err(Ctl::Stuck(s.to_string()))
}

type Env = Vec<(usize, V)>;
fn lookup<'e>(env: &'e Env, x: usize) -> Result<&'e V, Ctl> {
    env.iter().rev().find(|(y, _)| *y == x).map(|(_, v)| v).ok_or_else(|| Ctl::Stuck(format!("unbound v{x}")))
}
fn update(env: &mut Env, x: usize, v: V) -> Result<(), Ctl> {
    match env.iter_mut().rev().find(|(y, _)| *y == x) {
        Some(slot) => {
            slot.1 = v;
            Ok(())
        }
        None => stuck("assign to unbound"),
    }
}

impl<'a> Interp<'a> {
    pub fn new(p: &'a Program) -> Self {
        Interp { p, steps: 0, prime: vcommon::stark_prime() }
    }
    fn fnorm(&self, z: BigInt) -> BigInt {
        let r = z % &self.prime;
        if r.is_negative() { r + &self.prime } else { r }
    }
    fn panic_str<T>(&self, s: &str) -> Result<T, Ctl> {
        Err(Ctl::Panic(vec![short_felt(s)]))
    }

    fn int_arith(&self, o: Binop, i: Ity, a: &BigInt, b: &BigInt) -> R {
        let n = i.name();
        Ok(match o {
            Binop::Add => {
                let r = a + b;
                if r > i.hi() {
                    return self.panic_str(&format!("{n}_add Overflow"));
                }
                if r < i.lo() {
                    return self.panic_str(&format!("{n}_add Underflow"));
                }
                V::Int(r)
            }
            Binop::Sub => {
                let r = a - b;
                if i.signed() {
                    if r > i.hi() {
                        return self.panic_str(&format!("{n}_sub Overflow"));
                    }
                    if r < i.lo() {
                        return self.panic_str(&format!("{n}_sub Underflow"));
                    }
                } else if r.is_negative() {
                    return self.panic_str(&format!("{n}_sub Overflow"));
                }
                V::Int(r)
            }
            Binop::Mul => {
                let r = a * b;
                if r > i.hi() || r < i.lo() {
                    return self.panic_str(&format!("{n}_mul Overflow"));
                }
                V::Int(r)
            }
            Binop::Div | Binop::Rem => {
                if b.is_zero() {
                    return self.panic_str("Division by 0");
                }
                if i.signed() && *a == i.lo() && *b == -BigInt::one() {
                    return self.panic_str("attempt to divide with overflow");
                }
                // BigInt division truncates towards zero, remainder has the sign of the dividend
                if o == Binop::Div { V::Int(a / b) } else { V::Int(a % b) }
            }
            Binop::Eq => V::Bool(a == b),
            Binop::Ne => V::Bool(a != b),
            Binop::Lt => V::Bool(a < b),
            Binop::Le => V::Bool(a <= b),
            Binop::Gt => V::Bool(a > b),
            Binop::Ge => V::Bool(a >= b),
            Binop::And | Binop::Or | Binop::Xor => {
                if i.signed() {
                    return stuck("bitwise on signed");
                }
                V::Int(match o {
                    Binop::And => a & b,
                    Binop::Or => a | b,
                    _ => a ^ b,
                })
            }
        })
    }

    fn binop(&self, o: Binop, t: &Ty, a: V, b: V) -> R {
        match (t, &a, &b) {
            (Ty::Int(i), V::Int(x), V::Int(y)) => self.int_arith(o, *i, x, y),
            (Ty::Felt, V::Int(x), V::Int(y)) => Ok(match o {
                Binop::Add => V::Int(self.fnorm(x + y)),
                Binop::Sub => V::Int(self.fnorm(x - y)),
                Binop::Mul => V::Int(self.fnorm(x * y)),
                Binop::Eq => V::Bool(x == y),
                Binop::Ne => V::Bool(x != y),
                _ => return stuck("felt op"),
            }),
            (Ty::Bool, V::Bool(x), V::Bool(y)) => Ok(V::Bool(match o {
                Binop::Eq => x == y,
                Binop::Ne => x != y,
                Binop::And => *x && *y,
                Binop::Or => *x || *y,
                Binop::Xor => x ^ y,
                _ => return stuck("bool op"),
            })),
            _ => match o {
                Binop::Eq => Ok(V::Bool(a == b)),
                Binop::Ne => Ok(V::Bool(a != b)),
                _ => stuck("binop on aggregate"),
            },
        }
    }

    fn cast(&self, k: CastK, from: &Ty, to: &Ty, a: V) -> R {
        match (k, from, to, a) {
            (CastK::Into, Ty::Int(_), Ty::Int(_), V::Int(x)) => Ok(V::Int(x)),
            (CastK::Into, Ty::Int(_), Ty::Felt, V::Int(x)) => Ok(V::Int(self.fnorm(x))),
            (CastK::Into, Ty::Bool, Ty::Felt, V::Bool(b)) => Ok(V::Int(BigInt::from(b as u8))),
            (CastK::Try, Ty::Int(_), Ty::Int(j), V::Int(x)) => Ok(if x >= j.lo() && x <= j.hi() {
                V::Enum(0, Box::new(V::Int(x)))
            } else {
                V::Enum(1, Box::new(V::unit()))
            }),
            (CastK::Try, Ty::Felt, Ty::Int(j), V::Int(x)) => {
                let s = if x > (&self.prime / 2) { x - &self.prime } else { x };
                Ok(if s >= j.lo() && s <= j.hi() {
                    V::Enum(0, Box::new(V::Int(s)))
                } else {
                    V::Enum(1, Box::new(V::unit()))
                })
            }
            _ => stuck("cast"),
        }
    }

    fn block(&mut self, env: &mut Env, stmts: &[Stmt], tail: &Expr) -> R {
        let mark = env.len();
        let r = (|| {
            for s in stmts {
                match s {
                    Stmt::Let(x, _, e) => {
                        let v = self.eval(env, e)?;
                        env.push((*x, v));
                    }
                    Stmt::LetTup(xs, _, e) => match self.eval(env, e)? {
                        V::Tup(vs) if vs.len() == xs.len() => {
                            for (x, v) in xs.iter().zip(vs) {
                                env.push((*x, v));
                            }
                        }
                        _ => return stuck("destructuring"),
                    },
                    Stmt::Expr(e) => {
                        self.eval(env, e)?;
                    }
                }
            }
            self.eval(env, tail)
        })();
        env.truncate(mark);
        r
    }

    fn eval(&mut self, env: &mut Env, e: &Expr) -> R {
        self.steps += 1;
        if self.steps > 5_000_000 {
            return stuck("step limit");
        }
        match e {
            Expr::Lit(_, z) => Ok(V::Int(z.clone())),
            Expr::Bool(b) => Ok(V::Bool(*b)),
            Expr::Var(x) => lookup(env, *x).cloned(),
            Expr::Un(o, t, a) => {
                let v = self.eval(env, a)?;
                match (o, t, v) {
                    (Unop::Neg, Ty::Int(i), V::Int(x)) if i.signed() => {
                        if x == i.lo() {
                            self.panic_str(&format!("{}_neg Underflow", i.name()))
                        } else {
                            Ok(V::Int(-x))
                        }
                    }
                    (Unop::Neg, Ty::Felt, V::Int(x)) => Ok(V::Int(self.fnorm(-x))),
                    (Unop::Not, Ty::Bool, V::Bool(b)) => Ok(V::Bool(!b)),
                    (Unop::BitNot, Ty::Int(i), V::Int(x)) if !i.signed() => Ok(V::Int(i.hi() - x)),
                    _ => stuck("unop"),
                }
            }
            Expr::Bin(o, t, a, b) => {
                let x = self.eval(env, a)?;
                let y = self.eval(env, b)?;
                self.binop(*o, t, x, y)
            }
            Expr::AndAlso(a, b) => match self.eval(env, a)? {
                V::Bool(true) => self.eval(env, b),
                V::Bool(false) => Ok(V::Bool(false)),
                _ => stuck("&&"),
            },
            Expr::OrElse(a, b) => match self.eval(env, a)? {
                V::Bool(true) => Ok(V::Bool(true)),
                V::Bool(false) => self.eval(env, b),
                _ => stuck("||"),
            },
            Expr::Cast(k, f, t, a) => {
                let v = self.eval(env, a)?;
                self.cast(*k, f, t, v)
            }
            Expr::Tup(_, es) => {
                let mut vs = vec![];
                for e in es {
                    vs.push(self.eval(env, e)?);
                }
                Ok(V::Tup(vs))
            }
            Expr::Proj(_, i, a) => match self.eval(env, a)? {
                V::Tup(vs) if *i < vs.len() => Ok(vs[*i].clone()),
                _ => stuck("proj"),
            },
            Expr::Enum(_, idx, a) => {
                let v = self.eval(env, a)?;
                Ok(V::Enum(*idx, Box::new(v)))
            }
            Expr::Match(_, a, arms) => match self.eval(env, a)? {
                V::Enum(idx, pv) if idx < arms.len() => {
                    let (x, body) = &arms[idx];
                    env.push((*x, *pv));
                    let r = self.eval(env, body);
                    env.pop();
                    r
                }
                _ => stuck("match"),
            },
            Expr::MatchInt(_, a, arms, dflt) => match self.eval(env, a)? {
                V::Int(z) => {
                    if !z.is_negative() && z < BigInt::from(arms.len()) {
                        let k: usize = z.try_into().unwrap();
                        self.eval(env, &arms[k])
                    } else {
                        self.eval(env, dflt)
                    }
                }
                _ => stuck("match int"),
            },
            Expr::If(c, a, b) => match self.eval(env, c)? {
                V::Bool(true) => self.eval(env, a),
                V::Bool(false) => self.eval(env, b),
                _ => stuck("if"),
            },
            Expr::Block(stmts, tail) => self.block(env, stmts, tail),
            Expr::Assign(x, a) => {
                let v = self.eval(env, a)?;
                update(env, *x, v)?;
                Ok(V::unit())
            }
            Expr::Loop(_, _, body) => loop {
                match self.eval(env, body) {
                    Ok(_) | Err(Ctl::Cont) => continue,
                    Err(Ctl::Brk(v)) => return Ok(v),
                    Err(c) => return Err(c),
                }
            },
            Expr::While(_, c, body) => loop {
                match self.eval(env, c)? {
                    V::Bool(true) => match self.eval(env, body) {
                        Ok(_) | Err(Ctl::Cont) => continue,
                        Err(Ctl::Brk(_)) => return Ok(V::unit()),
                        Err(c) => return Err(c),
                    },
                    V::Bool(false) => return Ok(V::unit()),
                    _ => return stuck("while"),
                }
            },
            Expr::Break(_, a) => {
                let v = self.eval(env, a)?;
                Err(Ctl::Brk(v))
            }
            Expr::Continue(_) => Err(Ctl::Cont),
            Expr::Return(_, a) => {
                let v = self.eval(env, a)?;
                Err(Ctl::Ret(v))
            }
            Expr::Call(f, args) => {
                let fd = &self.p.fns[*f];
                if fd.params.len() != args.len() {
                    return stuck("arity");
                }
                let mut vals: Vec<Option<V>> = vec![];
                for a in args {
                    match a {
                        Arg::Val(e) => vals.push(Some(self.eval(env, e)?)),
                        Arg::Ref(_) => vals.push(None),
                    }
                }
                let mut cenv: Env = vec![];
                // callee environment: first parameter found first (names are distinct)
                for ((p, a), v) in fd.params.iter().zip(args).zip(vals).rev() {
                    match (a, v) {
                        (Arg::Val(_), Some(v)) if !p.by_ref => cenv.push((p.name, v)),
                        (Arg::Ref(x), None) if p.by_ref => cenv.push((p.name, lookup(env, *x)?.clone())),
                        _ => return stuck("argument kind"),
                    }
                }
                let r = match self.eval(&mut cenv, &fd.body) {
                    Ok(v) | Err(Ctl::Ret(v)) => v,
                    Err(Ctl::Panic(d)) => return Err(Ctl::Panic(d)),
                    Err(Ctl::Stuck(s)) => return Err(Ctl::Stuck(s)),
                    Err(_) => return stuck("break outside loop"),
                };
                for (p, a) in fd.params.iter().zip(args) {
                    if let Arg::Ref(x) = a {
                        let v = lookup(&cenv, p.name)?.clone();
                        update(env, *x, v)?;
                    }
                }
                Ok(r)
            }
            Expr::Try(a) => match self.eval(env, a)? {
                V::Enum(0, pv) => Ok(*pv),
                V::Enum(1, pv) => Err(Ctl::Ret(V::Enum(1, pv))),
                _ => stuck("?"),
            },
            Expr::Unwrap(msg, is_res, a) => match self.eval(env, a)? {
                V::Enum(0, pv) => Ok(*pv),
                V::Enum(1, _) => {
                    let m = match msg {
                        Some(m) => m.clone(),
                        None => (if *is_res { "Result::unwrap failed." } else { "Option::unwrap failed." }).to_string(),
                    };
                    self.panic_str(&m)
                }
                _ => stuck("unwrap"),
            },
            Expr::Panic(_, m) => Err(Ctl::Panic(panic_data(m))),
            Expr::Assert(c, m) => match self.eval(env, c)? {
                V::Bool(true) => Ok(V::unit()),
                V::Bool(false) => Err(Ctl::Panic(panic_data(m))),
                _ => stuck("assert"),
            },
            Expr::ArrNew(_) => Ok(V::Arr(vec![])),
            Expr::ArrAppend(x, a) => {
                let v = self.eval(env, a)?;
                match lookup(env, *x)?.clone() {
                    V::Arr(mut l) => {
                        l.push(v);
                        update(env, *x, V::Arr(l))?;
                        Ok(V::unit())
                    }
                    _ => stuck("append"),
                }
            }
            Expr::ArrPop(x) => match lookup(env, *x)?.clone() {
                V::Arr(l) => {
                    if l.is_empty() {
                        Ok(V::Enum(1, Box::new(V::unit())))
                    } else {
                        let h = l[0].clone();
                        update(env, *x, V::Arr(l[1..].to_vec()))?;
                        Ok(V::Enum(0, Box::new(h)))
                    }
                }
                _ => stuck("pop_front"),
            },
            Expr::ArrLen(x) => match lookup(env, *x)? {
                V::Arr(l) => Ok(V::Int(BigInt::from(l.len()))),
                _ => stuck("len"),
            },
            Expr::ArrAt(x, i) => {
                let iv = self.eval(env, i)?;
                match (iv, lookup(env, *x)?) {
                    (V::Int(z), V::Arr(l)) => {
                        if !z.is_negative() && z < BigInt::from(l.len()) {
                            let k: usize = z.try_into().unwrap();
                            Ok(l[k].clone())
                        } else {
                            self.panic_str("Index out of bounds")
                        }
                    }
                    _ => stuck("at"),
                }
            }
            Expr::Snap(a) | Expr::Desnap(a) | Expr::BoxNew(a) | Expr::Unbox(a) => self.eval(env, a),
            Expr::Arith(k, o, t, a, b) => {
                let x = self.eval(env, a)?;
                let y = self.eval(env, b)?;
                match (t, x, y) {
                    (Ty::Int(i), V::Int(x), V::Int(y)) => {
                        let r = match o {
                            Binop::Add => &x + &y,
                            Binop::Sub => &x - &y,
                            Binop::Mul if !i.signed() => &x * &y,
                            _ => return stuck("arith op"),
                        };
                        let in_range = r >= i.lo() && r <= i.hi();
                        let m = BigInt::one() << i.bits();
                        let mut w = (&r - i.lo()) % &m;
                        if w.is_negative() {
                            w += &m;
                        }
                        let w = w + i.lo();
                        Ok(match k {
                            ArithK::Wrapping => V::Int(w),
                            ArithK::Overflowing => V::Tup(vec![V::Int(w), V::Bool(!in_range)]),
                            ArithK::Checked => {
                                if in_range {
                                    V::Enum(0, Box::new(V::Int(r)))
                                } else {
                                    V::Enum(1, Box::new(V::unit()))
                                }
                            }
                            ArithK::Saturating => V::Int(if r > i.hi() {
                                i.hi()
                            } else if r < i.lo() {
                                i.lo()
                            } else {
                                r
                            }),
                        })
                    }
                    _ => stuck("arith operands"),
                }
            }
        }
    }

    /// Sierra layout of a value of type `t` (see coq/C01/Corr.v)
    pub fn flatten(&self, t: &Ty, v: &V, out: &mut Vec<BigInt>) -> Result<(), String> {
        match (t, v) {
            (Ty::Int(_), V::Int(z)) => out.push(self.fnorm(z.clone())),
            (Ty::Felt, V::Int(z)) => out.push(z.clone()),
            (Ty::Bool, V::Bool(b)) => out.push(BigInt::from(*b as u8)),
            (Ty::Tup(_) | Ty::Struct(_), V::Tup(vs)) => {
                let ms = self.p.members(t);
                if ms.len() != vs.len() {
                    return Err("tuple arity".into());
                }
                for (m, v) in ms.iter().zip(vs) {
                    self.flatten(m, v, out)?;
                }
            }
            (Ty::Enum(_) | Ty::Opt(_) | Ty::Res(..), V::Enum(idx, pv)) => {
                let vs = self.p.variants(t);
                let n = vs.len();
                if *idx >= n {
                    return Err("variant index".into());
                }
                let sel = if n <= 2 { *idx as i64 } else { 2 * (n as i64 - *idx as i64) - 1 };
                out.push(BigInt::from(sel));
                let mut fl = vec![];
                self.flatten(&vs[*idx], pv, &mut fl)?;
                let total = self.tsize(t) - 1;
                for _ in 0..(total - fl.len()) {
                    out.push(BigInt::zero());
                }
                out.extend(fl);
            }
            (Ty::Snap(t), v) => self.flatten(t, v, out)?,
            _ => return Err(format!("cannot flatten {:?}", t)),
        }
        Ok(())
    }
    pub fn tsize(&self, t: &Ty) -> usize {
        match t {
            Ty::Int(_) | Ty::Felt | Ty::Bool => 1,
            Ty::Tup(_) | Ty::Struct(_) => self.p.members(t).iter().map(|m| self.tsize(m)).sum(),
            Ty::Enum(_) | Ty::Opt(_) | Ty::Res(..) => {
                1 + self.p.variants(t).iter().map(|m| self.tsize(m)).max().unwrap_or(0)
            }
            Ty::Arr(_) => 2,
            Ty::Boxed(_) => 1,
            Ty::Snap(t) => self.tsize(t),
        }
    }

    pub fn run(&mut self, f: usize, args: &[Val]) -> Outcome {
        let fd = &self.p.fns[f];
        let mut env: Env = vec![];
        for (p, a) in fd.params.iter().zip(args).rev() {
            env.push((p.name, V::from_val(a)));
        }
        self.steps = 0;
        match self.eval(&mut env, &fd.body) {
            Ok(v) | Err(Ctl::Ret(v)) => {
                let mut out = vec![];
                match self.flatten(&fd.ret, &v, &mut out) {
                    Ok(()) => Outcome::Value(out),
                    Err(e) => Outcome::Stuck(e),
                }
            }
            Err(Ctl::Panic(d)) => Outcome::Panic(d),
            Err(Ctl::Stuck(s)) => Outcome::Stuck(s),
            Err(_) => Outcome::Stuck("break outside loop".into()),
        }
    }
}
