//! C05: observable behaviour is invariant under optimisation / lowering configuration.
//! The metamorphic matrix on the real pipeline: every (program, input) is compiled and run under
//! several configurations; values and panic data must be identical (gas and steps are not compared).
//!
//! Legs:
//!   gen       typed random programs of the C01 generator (the reference result is known too)
//!   examples  /repo/examples: every function whose parameters are felt-sized scalars and whose
//!             result holds no pointer, on small argument vectors
//!   tests     `#[test]` functions of /repo/tests/bug_samples (and, thorough tier, of the core
//!             library): raw run result of each test, with ample gas
use std::collections::BTreeMap;
use std::path::{Path, PathBuf};

use cairo_lang_compiler::db::RootDatabase;
use cairo_lang_compiler::diagnostics::DiagnosticsReporter;
use cairo_lang_compiler::project::setup_project;
use cairo_lang_filesystem::cfg::{Cfg, CfgSet};
use cairo_lang_filesystem::db::init_dev_corelib;
use cairo_lang_filesystem::flag::{Flag, FlagsGroup};
use cairo_lang_filesystem::ids::FlagLongId;
use cairo_lang_lowering::optimizations::config::Optimizations;
use cairo_lang_lowering::utils::InliningStrategy;
use cairo_lang_runner::{Arg, RunResultValue, SierraCasmRunner, StarknetState};
use cairo_lang_sierra::program::{GenericArg, Program as SierraProgram};
use cairo_lang_sierra_to_casm::metadata::MetadataComputationConfig;
use cairo_lang_starknet::starknet_plugin_suite;
use cairo_lang_test_plugin::{TestsCompilationConfig, compile_test_prepared_db, test_plugin_suite};
use cairo_vm::vm::runners::cairo_runner::RunResources;
use num_bigint::BigInt;
use starknet_types_core::felt::Felt as Felt252;

use crate::ast::Val;
use crate::interp::{Interp, Outcome};
use crate::run::{self, Config, Obs, OptKind, Solver};

pub fn matrix(tier: &str) -> Vec<Config> {
    let c = |opt, skip, thr, gas| Config { opt, skip_const_folding: skip, match_threshold: thr, gas };
    let mut m = vec![
        // the reference point: what cairo-run does
        c(OptKind::Default, false, None, None),
        c(OptKind::Disabled, false, None, None),
        c(OptKind::Avoid, true, Some(2), None),
        c(OptKind::Small(100_000), false, Some(0), None),
        c(OptKind::Default, true, Some(100), Some(Solver::Linear)),
        c(OptKind::Disabled, false, None, Some(Solver::Linear)),
        c(OptKind::Default, false, None, Some(Solver::NonLinear)),
    ];
    if tier == "thorough" {
        m.extend([
            c(OptKind::Disabled, false, Some(2), Some(Solver::Linear)),
            c(OptKind::Disabled, false, None, Some(Solver::NonLinear)),
            c(OptKind::Avoid, false, None, None),
            c(OptKind::Avoid, false, Some(0), Some(Solver::NonLinear)),
            c(OptKind::Small(0), false, None, None),
            c(OptKind::Small(0), true, Some(3), Some(Solver::Linear)),
            c(OptKind::Small(30), false, Some(100), None),
            c(OptKind::Small(30), true, None, Some(Solver::NonLinear)),
            c(OptKind::Small(100_000), true, None, Some(Solver::Linear)),
            c(OptKind::Small(100_000), false, Some(2), Some(Solver::NonLinear)),
            c(OptKind::Default, true, None, None),
            c(OptKind::Default, false, Some(2), None),
        ]);
    }
    m
}

/// (item name, argument cells, result) under one configuration
type Results = BTreeMap<(String, Vec<BigInt>), Obs>;

struct LegRun {
    cfg: Config,
    results: Result<Results, String>,
    secs: f64,
}

// ------------------------------------------------------------------------------------------
// leg "gen"
fn leg_gen(out: &Path, cfg: &Config, k: usize, progs: &[crate::ast::Program], vectors: &[Vec<Vec<Val>>]) -> Result<Results, String> {
    let dir = out.join("src");
    let mut res = Results::new();
    // crates of 50 programs: running a function costs time proportional to the size of the
    // compiled crate, and the legacy gas solver gives up on very large crates
    for (ci, chunk) in progs.chunks(50).enumerate() {
        let mut rejected = vec![];
        let (compiled, alive) =
            crate::compile_programs(&dir, &format!("c05_gen_cfg{k}_{ci}"), chunk, cfg, &mut rejected)?;
        // under the legacy (non-linear) solvers a program may be rejected at the Sierra -> CASM stage:
        // the other programs of the crate are still run; the rejected ones are reported per program
        let solver_only = cfg.gas == Some(Solver::NonLinear) && rejected.iter().all(|(_, m)| m.starts_with("INTERNAL"));
        if !rejected.is_empty() && !solver_only {
            if let Some((src, msg)) = rejected.iter().find(|(_, m)| !m.contains("FailedGasCalculation")) {
                let _ = std::fs::write(
                    out.join(format!("config_rejects_example_cfg{k}.cairo")),
                    format!("// under {}\n// {msg}\n{src}", cfg.name()),
                );
            }
            return Err(format!(
                "configuration {} rejects {} generated program(s): {}",
                cfg.name(),
                rejected.len(),
                rejected[0].1
            ));
        }
        if let Some((src, msg)) = rejected.iter().find(|(_, m)| m.contains("FailedGasCalculation")) {
            // the legacy (non-linear) gas solver gives up on some valid programs: not a result.
            // Keep one such program for inspection.
            let _ = std::fs::write(out.join("nonlinear_solver_failed_example.cairo"), format!("// {msg}\n{src}"));
        }
        for (pi, p) in chunk.iter().enumerate() {
            if !alive.contains(&pi) {
                let src = p.cairo();
                let msg = rejected.iter().find(|(s, _)| *s == src).map(|(_, m)| m.clone()).unwrap_or_default();
                let marker = if msg.contains("FailedGasCalculation") {
                    "FailedGasCalculation (non-linear solver)".to_string()
                } else {
                    // a compile error caused by the configuration: reported as a finding by `compare`
                    let path = out.join(format!("config_rejects_{}_cfg{k}.cairo", p.tag));
                    let _ = std::fs::write(&path, format!("// under {}\n// {msg}\n{src}", cfg.name()));
                    format!("CONFIG-REJECTS {} [{}]", msg.chars().take(260).collect::<String>(), path.display())
                };
                let fname = format!("::{}", p.fn_name(p.entry()));
                for args in &vectors[ci * 50 + pi] {
                    let mut cells = vec![];
                    for a in args {
                        a.flatten(&mut cells);
                    }
                    res.insert((fname.clone(), cells), Obs::Error(marker.clone()));
                }
            }
        }
        for pi in alive {
            let p = &chunk[pi];
            let fname = format!("::{}", p.fn_name(p.entry()));
            for args in &vectors[ci * 50 + pi] {
                let mut cells = vec![];
                for a in args {
                    a.flatten(&mut cells);
                }
                let obs = run::run(&compiled, &fname, &cells);
                res.insert((fname.clone(), cells), obs);
            }
        }
    }
    Ok(res)
}

// ------------------------------------------------------------------------------------------
// leg "examples": discovery of runnable functions from the Sierra signatures
fn type_map(p: &SierraProgram) -> BTreeMap<u64, (String, Vec<GenericArg>)> {
    p.type_declarations
        .iter()
        .map(|d| (d.id.id, (d.long_id.generic_id.0.to_string(), d.long_id.generic_args.clone())))
        .collect()
}
const SCALARS: [&str; 11] = ["felt252", "u8", "u16", "u32", "u64", "u128", "i8", "i16", "i32", "i64", "i128"];
const IMPLICITS: [&str; 14] = [
    "RangeCheck",
    "GasBuiltin",
    "Pedersen",
    "Bitwise",
    "EcOp",
    "Poseidon",
    "SegmentArena",
    "System",
    "BuiltinCosts",
    "RangeCheck96",
    "AddMod",
    "MulMod",
    "Blake",
    "QM31",
];
fn pointer_free(tm: &BTreeMap<u64, (String, Vec<GenericArg>)>, id: u64, depth: u32) -> bool {
    if depth > 12 {
        return false;
    }
    let Some((g, args)) = tm.get(&id) else { return false };
    let g = g.as_str();
    if SCALARS.contains(&g) || g == "BoundedInt" {
        return true;
    }
    if matches!(g, "Struct" | "Enum" | "NonZero" | "Snapshot") {
        return args.iter().all(|a| match a {
            GenericArg::Type(t) => pointer_free(tm, t.id, depth + 1),
            _ => true,
        });
    }
    false
}
/// The result type with the panic wrapper removed, if pointer free.
fn result_ok(tm: &BTreeMap<u64, (String, Vec<GenericArg>)>, id: u64) -> bool {
    let Some((g, args)) = tm.get(&id) else { return false };
    if g == "Enum" {
        if let Some(GenericArg::UserType(ut)) = args.first() {
            if ut.debug_name.as_ref().map(|n| n.starts_with("core::panics::PanicResult::")).unwrap_or(false) {
                return match args.get(1) {
                    Some(GenericArg::Type(t)) => pointer_free(tm, t.id, 0),
                    _ => false,
                };
            }
        }
    }
    pointer_free(tm, id, 0)
}

const EXAMPLE_VECTORS: [[u64; 4]; 7] =
    [[1, 1, 7, 2], [0, 1, 9, 1], [2, 3, 5, 3], [1, 1, 200, 1], [5, 4, 3, 2], [0, 0, 0, 0], [3, 1, 1, 6]];

fn leg_examples(cfg: &Config) -> Result<Results, String> {
    let mut db = run::build_db(cfg);
    let (sierra, compiled) = run::compile_with_program(&mut db, Path::new(&format!("{}/examples", run::repo())), cfg)
        .map_err(|e| format!("examples do not compile under {}: {e:?}", cfg.name()))?;
    let tm = type_map(&sierra);
    let mut res = Results::new();
    for f in &sierra.funcs {
        let name = f.id.debug_name.as_ref().map(|s| s.to_string()).unwrap_or_default();
        if !name.starts_with("examples::") || name.contains('[') || name.contains('<') || name.contains('{') {
            continue;
        }
        // user parameters: everything that is not an implicit
        let mut user = vec![];
        let mut ok = true;
        for t in &f.signature.param_types {
            let Some((g, _)) = tm.get(&t.id) else {
                ok = false;
                break;
            };
            if IMPLICITS.contains(&g.as_str()) {
                continue;
            }
            if SCALARS.contains(&g.as_str()) {
                user.push(g.clone());
            } else {
                ok = false;
                break;
            }
        }
        let rets: Vec<u64> = f
            .signature
            .ret_types
            .iter()
            .filter(|t| tm.get(&t.id).map(|(g, _)| !IMPLICITS.contains(&g.as_str())).unwrap_or(true))
            .map(|t| t.id)
            .collect();
        if !ok || rets.len() > 1 || !rets.iter().all(|r| result_ok(&tm, *r)) || user.len() > 4 {
            continue;
        }
        let vectors: Vec<Vec<BigInt>> = if user.is_empty() {
            vec![vec![]]
        } else {
            EXAMPLE_VECTORS.iter().map(|v| v[..user.len()].iter().map(|x| BigInt::from(*x)).collect()).collect()
        };
        for cells in vectors {
            let obs = run::run(&compiled, &name, &cells);
            res.insert((name.clone(), cells), obs);
        }
    }
    Ok(res)
}

// ------------------------------------------------------------------------------------------
// leg "tests": the #[test] functions of a crate directory
fn build_test_db(cfg: &Config, starknet: bool) -> RootDatabase {
    let mut b = RootDatabase::builder();
    let mut cfgset = CfgSet::from_iter([Cfg::name("test"), Cfg::kv("target", "test")]);
    if cfg.gas.is_none() {
        cfgset.insert(Cfg::kv("gas", "disabled"));
        b.skip_auto_withdraw_gas();
    }
    b.with_cfg(cfgset);
    b.with_default_plugin_suite(test_plugin_suite());
    if starknet {
        b.with_default_plugin_suite(starknet_plugin_suite());
    }
    let enabled = |s: InliningStrategy| match Optimizations::enabled_with_default_movable_functions(s) {
        Optimizations::Enabled(c) => Optimizations::Enabled(c.with_skip_const_folding(cfg.skip_const_folding)),
        o => o,
    };
    b.with_optimizations(match cfg.opt {
        OptKind::Disabled => Optimizations::Disabled,
        OptKind::Default => enabled(InliningStrategy::Default),
        OptKind::Avoid => enabled(InliningStrategy::Avoid),
        OptKind::Small(k) => enabled(InliningStrategy::InlineSmallFunctions(k)),
    });
    let mut db = b.build().expect("RootDatabase");
    init_dev_corelib(&mut db, PathBuf::from(run::corelib()));
    if let Some(k) = cfg.match_threshold {
        db.set_flag(
            FlagLongId(Flag::NUMERIC_MATCH_OPTIMIZATION_MIN_ARMS_THRESHOLD.into()),
            Some(Flag::NumericMatchOptimizationMinArmsThreshold(k)),
        );
    }
    db
}

/// tests whose result legitimately depends on the amount of gas spent (they read the gas counter)
fn gas_observing(name: &str) -> bool {
    name.contains("gas") || name.contains("Gas")
}

fn leg_tests(cfg: &Config, path: &str, prefix: &str, starknet: bool) -> Result<Results, String> {
    // everything the run needs is copied out of the database, which is dropped before the tests
    // run (the core library's database is several GB)
    let (sierra_program, function_set_costs, contracts_info, named_tests) = {
    let mut db = build_test_db(cfg, starknet);
    let inputs = setup_project(&mut db, Path::new(path)).map_err(|e| format!("setup_project({path}): {e:?}"))?;
    let mut diag = String::new();
    let compiled = vcommon::catch(std::panic::AssertUnwindSafe(|| {
        compile_test_prepared_db(
            &db,
            TestsCompilationConfig {
                starknet,
                add_statements_functions: false,
                add_statements_code_locations: false,
                contract_declarations: None,
                contract_crate_ids: None,
                executable_crate_ids: None,
                add_functions_debug_info: false,
                add_type_names: false,
                replace_ids: false,
            },
            inputs.clone(),
            DiagnosticsReporter::write_to_string(&mut diag).with_crates(&inputs).allow_warnings(),
        )
    }))
    .map_err(|e| format!("compiler panicked on {path} under {}: {e} at {}", cfg.name(), vcommon::last_panic_location()))?
    .map_err(|e| {
        let first: String = e.to_string().lines().next().unwrap_or("").to_string();
        format!("{path} does not compile under {}: {first}", cfg.name())
    });
    let compiled = match compiled {
        Ok(c) => c,
        Err(e) => return Err(format!("{e}\n{}", diag.chars().take(1500).collect::<String>())),
    };
    (
        compiled.sierra_program.program.clone(),
        compiled.metadata.function_set_costs.clone(),
        compiled.metadata.contracts_info.clone(),
        compiled.metadata.named_tests.clone(),
    )
    };
    let meta = cfg.gas.map(|s| MetadataComputationConfig {
        function_set_costs: function_set_costs.clone(),
        linear_gas_solver: s == Solver::Linear,
        linear_ap_change_solver: s == Solver::Linear,
        skip_non_linear_solver_comparisons: s == Solver::NonLinear,
        compute_runtime_costs: false,
    });
    let runner = vcommon::catch(std::panic::AssertUnwindSafe(|| {
        SierraCasmRunner::new(sierra_program.clone(), meta, contracts_info.clone(), None)
    }))
    .map_err(|e| format!("runner set-up panicked under {}: {e} at {}", cfg.name(), vcommon::last_panic_location()))?
    .map_err(|e| format!("runner under {}: {e:?}", cfg.name()))?;
    let mut res = Results::new();
    let tm = type_map(&sierra_program);
    for (name, test) in &named_tests {
        if test.ignored || gas_observing(name) {
            continue;
        }
        // a test may return a value: only pointer-free results are comparable between configurations
        let comparable = sierra_program
            .funcs
            .iter()
            .find(|f| f.id.debug_name.as_ref().map(|n| n.as_str() == name.as_str()).unwrap_or(false))
            .map(|f| {
                f.signature
                    .ret_types
                    .iter()
                    .filter(|t| tm.get(&t.id).map(|(g, _)| !IMPLICITS.contains(&g.as_str())).unwrap_or(true))
                    .all(|t| result_ok(&tm, t.id))
            })
            .unwrap_or(true);
        if !comparable {
            continue;
        }
        let gas = if cfg.gas.is_some() { Some(run::AVAILABLE_GAS) } else { None };
        let r = vcommon::catch(std::panic::AssertUnwindSafe(|| {
            let f = runner.find_function(name).map_err(|e| format!("{e:?}"))?;
            let (mut hp, ctx) = runner
                .prepare_starknet_context(f, vec![], gas, StarknetState::default())
                .map_err(|e| format!("{e:?}"))?;
            hp.run_resources = RunResources::new(run::MAX_STEPS);
            runner.run_function_with_prepared_starknet_context(f, &mut hp, ctx).map_err(|e| format!("{e:?}"))
        }));
        let obs = match r {
            Ok(Ok(res)) => match res.value {
                RunResultValue::Success(cells) => Obs::Success(cells.iter().map(|f| f.to_bigint()).collect()),
                RunResultValue::Panic(data) => Obs::Panic(data.iter().map(|f| f.to_bigint()).collect()),
            },
            Ok(Err(e)) => Obs::Error(e.chars().take(300).collect()),
            Err(e) => Obs::Error(format!("runner panicked: {e} at {}", vcommon::last_panic_location())),
        };
        res.insert((format!("{prefix}{name}"), vec![]), obs);
    }
    let _ = (Arg::Value(Felt252::from(0)),);
    Ok(res)
}

// ------------------------------------------------------------------------------------------
fn run_leg<F: Fn(&Config, usize) -> Result<Results, String> + Sync>(configs: &[Config], f: F) -> Vec<LegRun> {
    run_leg_n(configs, 12, f)
}

fn run_leg_n<F: Fn(&Config, usize) -> Result<Results, String> + Sync>(
    configs: &[Config],
    max_threads: usize,
    f: F,
) -> Vec<LegRun> {
    let out = std::sync::Mutex::new(vec![]);
    let next = std::sync::atomic::AtomicUsize::new(0);
    std::thread::scope(|sc| {
        for _ in 0..configs.len().min(max_threads) {
            // the compiler recurses deeply on big crates: give the workers a large stack
            std::thread::Builder::new().stack_size(512 << 20).spawn_scoped(sc, || loop {
                let k = next.fetch_add(1, std::sync::atomic::Ordering::SeqCst);
                if k >= configs.len() {
                    break;
                }
                let t = std::time::Instant::now();
                let r = match vcommon::catch(std::panic::AssertUnwindSafe(|| f(&configs[k], k))) {
                    Ok(r) => r,
                    Err(e) => Err(format!("panicked: {e} at {}", vcommon::last_panic_location())),
                };
                out.lock().unwrap().push((k, LegRun { cfg: configs[k].clone(), results: r, secs: t.elapsed().as_secs_f64() }));
            })
            .expect("spawn");
        }
    });
    let mut v = out.into_inner().unwrap();
    v.sort_by_key(|x| x.0);
    v.into_iter().map(|x| x.1).collect()
}

fn cells_show(c: &[BigInt]) -> String {
    format!("[{}]", c.iter().map(|x| x.to_string()).collect::<Vec<_>>().join(", "))
}

/// Compares every configuration with the first one.
fn compare(leg: &str, runs: &[LegRun], failures: &mut Vec<serde_json::Value>, stats: &mut serde_json::Map<String, serde_json::Value>) {
    let mut items = 0;
    let mut compared = 0;
    let mut inconclusive = 0;
    let mut errors = vec![];
    let mut not_applicable = vec![];
    let mut rejected_seen: Vec<(String, String)> = vec![];
    for class in [false, true] {
      let runs: Vec<&LegRun> = runs.iter().filter(|r| r.cfg.gas.is_some() == class).collect();
      if runs.is_empty() {
          continue;
      }
      let base = match &runs[0].results {
        Ok(r) => r,
        Err(e) => {
            failures.push(serde_json::json!({"leg": leg, "why": "the reference configuration failed", "config_a": runs[0].cfg.name(), "error": e}));
            continue;
        }
      };
      items += base.len();
      for r in &runs[1..] {
        match &r.results {
            Err(e) => {
                errors.push(e.clone());
                // the legacy (non-linear) gas solver cannot solve every valid program: a set-up
                // failure of that solver is "configuration not applicable", not a result
                if r.cfg.gas == Some(Solver::NonLinear) && (e.contains("FailedGasCalculation") || e.contains("gas_info.rs")) {
                    not_applicable.push(r.cfg.name());
                    continue;
                }
                failures.push(serde_json::json!({
                    "leg": leg, "why": "a configuration cannot compile / set up what the reference configuration runs",
                    "config_a": runs[0].cfg.name(), "config_b": r.cfg.name(), "error": e}));
            }
            Ok(res) => {
                let mut n_fail = 0;
                for (key, a) in base {
                    let Some(b) = res.get(key) else {
                        n_fail += 1;
                        if n_fail <= 3 {
                            failures.push(serde_json::json!({
                                "leg": leg, "why": "item missing under a configuration", "item": key.0, "args": cells_show(&key.1),
                                "config_a": runs[0].cfg.name(), "config_b": r.cfg.name()}));
                        }
                        continue;
                    };
                    compared += 1;
                    // a run that hit the step limit under one configuration is inconclusive
                    let lim = |o: &Obs| matches!(o, Obs::Error(e) if e.contains("RunResources") || e.contains("UnfinishedExecution") || e.contains("steps") || e.contains("FailedGasCalculation (non-linear solver)"));
                    if lim(a) || lim(b) {
                        inconclusive += 1;
                        continue;
                    }
                    if let Obs::Error(m) = b {
                        if m.starts_with("CONFIG-REJECTS") && !matches!(a, Obs::Error(_)) {
                            if !rejected_seen.contains(&(key.0.clone(), r.cfg.name())) {
                                rejected_seen.push((key.0.clone(), r.cfg.name()));
                                if rejected_seen.len() <= 4 {
                                    failures.push(serde_json::json!({
                                        "leg": leg, "why": "a configuration cannot compile a program that the reference configuration compiles and runs",
                                        "item": key.0, "args": cells_show(&key.1),
                                        "config_a": runs[0].cfg.name(), "result_a": a.show(),
                                        "config_b": r.cfg.name(), "error": m}));
                                }
                            }
                            continue;
                        }
                    }
                    if a != b {
                        n_fail += 1;
                        if n_fail <= 3 {
                            failures.push(serde_json::json!({
                                "leg": leg, "why": "results differ between two configurations",
                                "item": key.0, "args": cells_show(&key.1),
                                "config_a": runs[0].cfg.name(), "result_a": a.show(),
                                "config_b": r.cfg.name(), "result_b": b.show()}));
                        }
                    }
                }
            }
        }
      }
    }
    // the runs that ended in an error under the first configuration (same under all, or reported above)
    let err_items: Vec<serde_json::Value> = runs
        .iter()
        .find_map(|r| r.results.as_ref().ok())
        .map(|res| {
            res.iter()
                .filter_map(|(k, o)| match o {
                    Obs::Error(e) => Some(serde_json::json!({"item": k.0, "error": e})),
                    _ => None,
                })
                .take(8)
                .collect()
        })
        .unwrap_or_default();
    let mut panic_kinds: BTreeMap<String, usize> = BTreeMap::new();
    if let Some(res) = runs.iter().find_map(|r| r.results.as_ref().ok()) {
        for o in res.values() {
            if let Obs::Panic(d) = o {
                *panic_kinds.entry(d.first().map(crate::felt_text).unwrap_or_default()).or_default() += 1;
            }
        }
    }
    let mut pk: Vec<(String, usize)> = panic_kinds.into_iter().collect();
    pk.sort_by(|a, b| b.1.cmp(&a.1));
    pk.truncate(10);
    stats.insert(
        leg.to_string(),
        serde_json::json!({
            "items": items, "comparisons": compared, "inconclusive_step_limit_or_solver": inconclusive,
            "configs": runs.iter().map(|r| serde_json::json!({"config": r.cfg.name(), "secs": r.secs,
                 "items": r.results.as_ref().map(|x| x.len()).unwrap_or(0),
                 "successes": r.results.as_ref().map(|x| x.values().filter(|o| matches!(o, Obs::Success(_))).count()).unwrap_or(0),
                 "panics": r.results.as_ref().map(|x| x.values().filter(|o| matches!(o, Obs::Panic(_))).count()).unwrap_or(0),
                 "errors": r.results.as_ref().map(|x| x.values().filter(|o| matches!(o, Obs::Error(_))).count()).unwrap_or(0),
            })).collect::<Vec<_>>(),
            "config_errors": errors, "nonlinear_solver_not_applicable": not_applicable, "run_errors": err_items, "panic_kinds_top": pk,
        }),
    );
}

pub fn main_c05(out: &Path, tier: &str, seed: u64) {
    std::fs::create_dir_all(out.join("src")).unwrap();
    let configs = matrix(tier);
    let mut failures: Vec<serde_json::Value> = vec![];
    let mut stats = serde_json::Map::new();
    let mut samples = vec![];

    let only = std::env::var("H01_C05_LEGS").unwrap_or_default();
    let want = |l: &str| only.is_empty() || only.split(',').any(|x| x == l);
    // ---- generated programs ----
    let (n_progs, n_vecs) = if tier == "thorough" { (300, 12) } else { (60, 10) };
    let n_progs = std::env::var("H01_C05_PROGS").ok().and_then(|s| s.parse().ok()).unwrap_or(n_progs);
    let mut gstats = crate::genp::Stats::default();
    let (mut progs, mut vectors, _) = crate::generate_crate(seed, 500, n_progs, n_vecs, &mut gstats);
    // the pass-shape family (enumerated): the programs most likely to separate two configurations
    let n_random = progs.len();
    if std::env::var("H01_NO_SHAPES").is_err() {
        for sh in crate::shapes::all_shapes(tier) {
            progs.push(sh.prog);
            vectors.push(sh.vectors);
        }
    }
    let n_shapes = progs.len() - n_random;
    let gen_runs = if want("gen") { run_leg(&configs, |cfg, k| leg_gen(out, cfg, k, &progs, &vectors)) } else { vec![] };
    if want("gen") {
        compare("gen", &gen_runs, &mut failures, &mut stats);
    }
    // the reference semantics has no configuration parameter: the interpreter's answer must be the
    // answer under EVERY configuration
    let mut ref_checked = 0;
    let mut ref_bad = 0;
    for r in &gen_runs {
        if let Ok(res) = &r.results {
            for (pi, p) in progs.iter().enumerate() {
                let mut it = Interp::new(p);
                let fname = format!("::{}", p.fn_name(p.entry()));
                for args in &vectors[pi] {
                    let mut cells = vec![];
                    for a in args {
                        a.flatten(&mut cells);
                    }
                    if let Some(obs) = res.get(&(fname.clone(), cells.clone())) {
                        ref_checked += 1;
                        let e = it.run(p.entry(), args);
                        let skipped = matches!(obs, Obs::Error(m) if m.contains("FailedGasCalculation (non-linear solver)") || m.starts_with("CONFIG-REJECTS"));
                        if !skipped && !crate::agrees(&e, obs) && !matches!(e, Outcome::Stuck(_)) {
                            ref_bad += 1;
                            if ref_bad <= 3 {
                                failures.push(serde_json::json!({
                                    "leg": "gen", "why": "result under a configuration differs from the source semantics",
                                    "item": fname, "args": cells_show(&cells), "config_b": r.cfg.name(),
                                    "result_b": obs.show(), "expected": format!("{:?}", e), "source": p.cairo()}));
                            }
                        }
                    }
                }
            }
        }
    }
    if let Some(p) = progs.first() {
        samples.push(serde_json::json!({"leg": "gen", "program": p.cairo().chars().take(1500).collect::<String>(),
            "args": vectors[0].iter().take(2).map(|v| v.iter().map(|a| a.show()).collect::<Vec<_>>()).collect::<Vec<_>>()}));
    }

    // ---- examples ----
    if want("examples") {
        let ex_runs = run_leg(&configs, |cfg, _| leg_examples(cfg));
        compare("examples", &ex_runs, &mut failures, &mut stats);
        if let Ok(r) = &ex_runs[0].results {
            for (k, v) in r.iter().take(3) {
                samples.push(serde_json::json!({"leg": "examples", "item": k.0, "args": cells_show(&k.1), "result": v.show()}));
            }
        }
    }

    // ---- tests ----
    // tests need gas (syscalls, #[available_gas]): only the gas-enabled configurations
    let gas_cfgs: Vec<Config> = configs.iter().filter(|c| c.gas.is_some()).cloned().collect();
    if want("bug_samples") {
        let t_runs = run_leg_n(&gas_cfgs, 6, |cfg, _| leg_tests(cfg, &format!("{}/tests/bug_samples", run::repo()), "bug_samples:", true));
        compare("bug_samples", &t_runs, &mut failures, &mut stats);
        if let Ok(r) = &t_runs[0].results {
            for (k, v) in r.iter().take(2) {
                samples.push(serde_json::json!({"leg": "bug_samples", "item": k.0, "result": v.show()}));
            }
        }
    }
    if tier == "thorough" && want("corelib") {
        // the core library's own tests need gas (#[available_gas]): only the gas configurations
        // the core library with its tests is a big crate: few compilations at a time (memory)
        // (four configurations: both solvers, optimisations off / default / aggressive inlining)
        let c = |opt, skip, thr, gas| Config { opt, skip_const_folding: skip, match_threshold: thr, gas };
        let core_cfgs = vec![
            c(OptKind::Default, false, None, Some(Solver::Linear)),
            c(OptKind::Disabled, false, None, Some(Solver::Linear)),
            // (no "inline everything" here: on the core library it needs tens of GB)
            c(OptKind::Avoid, true, Some(2), Some(Solver::Linear)),
            c(OptKind::Default, false, None, Some(Solver::NonLinear)),
        ];
        let c_runs = run_leg_n(&core_cfgs, 2, |cfg, _| leg_tests(cfg, &format!("{}/corelib", run::repo()), "corelib:", false));
        compare("corelib_tests", &c_runs, &mut failures, &mut stats);
    }

    // ---- the kernel's tie: real lowerings before / after the real branch_inversion pass ----
    let pass_stats = if want("pass") { pass_leg(out, &progs, tier) } else { serde_json::Value::Null };

    let total_items: u64 = stats.values().map(|v| v["items"].as_u64().unwrap_or(0)).sum();
    let total_cmp: u64 = stats.values().map(|v| v["comparisons"].as_u64().unwrap_or(0)).sum();
    let summary = serde_json::json!({
        "configurations": configs.iter().map(|c| c.name()).collect::<Vec<_>>(),
        "legs": stats, "items": total_items, "comparisons": total_cmp,
        "gen_programs": progs.len(), "gen_random_programs": n_random, "gen_shape_programs": n_shapes, "gen_constructs": gstats.constructs,
        "reference_checked": ref_checked, "reference_disagreements": ref_bad,
        "failures": failures.len(), "samples": samples, "pass_cases": pass_stats,
    });
    let suffix = if only.is_empty() { String::new() } else { format!("_{}", only.replace(',', "_")) };
    std::fs::write(out.join(format!("c05_summary{suffix}.json")), serde_json::to_string_pretty(&summary).unwrap()).unwrap();
    std::fs::write(out.join(format!("c05_failures{suffix}.json")), serde_json::to_string_pretty(&failures).unwrap()).unwrap();
    println!(
        "h01 c05: {} configurations, {} items, {} pairwise comparisons, {} vs reference semantics, {} failures",
        configs.len(),
        total_items,
        total_cmp,
        ref_checked,
        failures.len()
    );
}

/// Prints case shards `c05_pass_*.v`: (lowering before the pass, lowering after the REAL pass).
fn pass_leg(out: &Path, progs: &[crate::ast::Program], tier: &str) -> serde_json::Value {
    use cairo_lang_filesystem::ids::CrateInput;
    let cfg = Config::base();
    let mut all: Vec<crate::lower::PassCase> = vec![];
    let mut errors = vec![];
    let limit = if tier == "thorough" { 4000 } else { 600 };
    // generated programs (one crate) and the examples
    let (src, _) = crate::crate_source(progs);
    let gen_path = out.join("src").join("c05_pass_gen.cairo");
    std::fs::write(&gen_path, src).unwrap();
    let examples_dir = format!("{}/examples", run::repo());
    for path in [gen_path.as_path(), Path::new(&examples_dir)] {
        let mut db = run::build_db(&cfg);
        let inputs = match setup_project(&mut db, path) {
            Ok(i) => i,
            Err(e) => {
                errors.push(format!("setup_project({}): {e:?}", path.display()));
                continue;
            }
        };
        let db = &db;
        let crate_ids = CrateInput::into_crate_ids(db, inputs);
        match crate::lower::pass_cases(db, &crate_ids, limit) {
            Ok(cs) => all.extend(cs),
            Err(e) => errors.push(format!("{}: {e}", path.display())),
        }
    }
    let fired = all.iter().filter(|c| c.fired).count();
    let with_not = all.iter().filter(|c| c.bool_not_calls > 0).count();
    let mut shard = 0;
    for chunk in all.chunks(60) {
        let mut s = String::from("From C05 Require Import Corr.\nOpen Scope nat_scope.\n");
        let mut cs = vec![];
        for (k, c) in chunk.iter().enumerate() {
            let id = shard * 1000 + k;
            s.push_str(&format!("(* {} *)\nDefinition b_{k} : lowered :=\n   {}.\nDefinition a_{k} : lowered :=\n   {}.\n", c.name, c.before, c.after));
            cs.push(format!("{{| pc_id := {id}%Z; pc_before := b_{k}; pc_after := a_{k} |}}"));
        }
        s.push_str(&format!("Definition cases : list pcase := [\n  {}\n].\n", cs.join(";\n  ")));
        s.push_str("Definition fired := Eval vm_compute in count_fired cases.\nPrint fired.\n");
        s.push_str("Definition bad := Eval vm_compute in check_pass cases.\nPrint bad.\n");
        std::fs::write(out.join(format!("c05_pass_{shard:03}.v")), s).unwrap();
        shard += 1;
    }
    serde_json::json!({
        "functions": all.len(), "functions_where_pass_fires": fired, "functions_with_bool_not_call": with_not,
        "blocks": all.iter().map(|c| c.blocks).sum::<usize>(), "shards": shard, "errors": errors,
        "sample_fired": all.iter().find(|c| c.fired).map(|c| serde_json::json!({"function": c.name, "before": c.before, "after": c.after})),
    })
}
