//! C05: the metamorphic matrix (filled in below).
use std::path::Path;
pub fn main_c05(_out: &Path, _tier: &str, _seed: u64) {
    eprintln!("c05 mode not built yet");
    std::process::exit(2);
}
