//! The typed AST of the generated Cairo subset, with two printers: Cairo source text and the
//! Coq term of `C01.Ref.expr` (same tree, structural types).
use num_bigint::BigInt;
use num_traits::{One, Signed, Zero};
use std::fmt::Write as _;

#[derive(Clone, Copy, PartialEq, Eq, Hash, Debug, PartialOrd, Ord)]
pub enum Ity {
    U8,
    U16,
    U32,
    U64,
    U128,
    I8,
    I16,
    I32,
    I64,
    I128,
}
pub const ITYS: [Ity; 10] =
    [Ity::U8, Ity::U16, Ity::U32, Ity::U64, Ity::U128, Ity::I8, Ity::I16, Ity::I32, Ity::I64, Ity::I128];
impl Ity {
    pub fn signed(self) -> bool {
        matches!(self, Ity::I8 | Ity::I16 | Ity::I32 | Ity::I64 | Ity::I128)
    }
    pub fn bits(self) -> u32 {
        match self {
            Ity::U8 | Ity::I8 => 8,
            Ity::U16 | Ity::I16 => 16,
            Ity::U32 | Ity::I32 => 32,
            Ity::U64 | Ity::I64 => 64,
            Ity::U128 | Ity::I128 => 128,
        }
    }
    pub fn lo(self) -> BigInt {
        if self.signed() { -(BigInt::one() << (self.bits() - 1)) } else { BigInt::zero() }
    }
    pub fn hi(self) -> BigInt {
        if self.signed() { (BigInt::one() << (self.bits() - 1)) - 1 } else { (BigInt::one() << self.bits()) - 1 }
    }
    pub fn name(self) -> &'static str {
        match self {
            Ity::U8 => "u8",
            Ity::U16 => "u16",
            Ity::U32 => "u32",
            Ity::U64 => "u64",
            Ity::U128 => "u128",
            Ity::I8 => "i8",
            Ity::I16 => "i16",
            Ity::I32 => "i32",
            Ity::I64 => "i64",
            Ity::I128 => "i128",
        }
    }
    pub fn coq(self) -> &'static str {
        match self {
            Ity::U8 => "U8",
            Ity::U16 => "U16",
            Ity::U32 => "U32",
            Ity::U64 => "U64",
            Ity::U128 => "U128",
            Ity::I8 => "I8",
            Ity::I16 => "I16",
            Ity::I32 => "I32",
            Ity::I64 => "I64",
            Ity::I128 => "I128",
        }
    }
    /// `Upcastable<self, to>` exists in corelib/src/integer.cairo: strictly wider target that
    /// contains the source range.
    pub fn upcastable(self, to: Ity) -> bool {
        self != to && to.lo() <= self.lo() && self.hi() <= to.hi() && to.bits() > self.bits()
    }
}

/// Types. `Struct(k)` / `Enum(k)` refer to the declarations of the enclosing `Program`.
#[derive(Clone, PartialEq, Eq, Hash, Debug)]
pub enum Ty {
    Int(Ity),
    Felt,
    Bool,
    Tup(Vec<Ty>),
    Struct(usize),
    Enum(usize),
    Opt(Box<Ty>),
    Res(Box<Ty>, Box<Ty>),
    Arr(Box<Ty>),
    Snap(Box<Ty>),
    Boxed(Box<Ty>),
}
impl Ty {
    pub fn unit() -> Ty {
        Ty::Tup(vec![])
    }
    pub fn is_unit(&self) -> bool {
        matches!(self, Ty::Tup(v) if v.is_empty())
    }
}

#[derive(Clone, Copy, PartialEq, Eq, Hash, Debug)]
pub enum Binop {
    Add,
    Sub,
    Mul,
    Div,
    Rem,
    Eq,
    Ne,
    Lt,
    Le,
    Gt,
    Ge,
    And,
    Or,
    Xor,
}
impl Binop {
    pub fn cairo(self) -> &'static str {
        match self {
            Binop::Add => "+",
            Binop::Sub => "-",
            Binop::Mul => "*",
            Binop::Div => "/",
            Binop::Rem => "%",
            Binop::Eq => "==",
            Binop::Ne => "!=",
            Binop::Lt => "<",
            Binop::Le => "<=",
            Binop::Gt => ">",
            Binop::Ge => ">=",
            Binop::And => "&",
            Binop::Or => "|",
            Binop::Xor => "^",
        }
    }
    pub fn coq(self) -> &'static str {
        match self {
            Binop::Add => "Add",
            Binop::Sub => "Sub",
            Binop::Mul => "Mul",
            Binop::Div => "Div",
            Binop::Rem => "Rem",
            Binop::Eq => "Eq",
            Binop::Ne => "Ne",
            Binop::Lt => "Lt",
            Binop::Le => "Le",
            Binop::Gt => "Gt",
            Binop::Ge => "Ge",
            Binop::And => "And",
            Binop::Or => "Or",
            Binop::Xor => "Xor",
        }
    }
}
#[derive(Clone, Copy, PartialEq, Eq, Hash, Debug)]
pub enum Unop {
    Neg,
    Not,
    BitNot,
}
#[derive(Clone, Copy, PartialEq, Eq, Hash, Debug)]
pub enum CastK {
    Into,
    Try,
}

/// Panic payloads: a short string through `panic_with_felt252` / `assert(c, 'msg')`, or a
/// formatted ByteArray through `panic!("msg")` / `assert!(c, "msg")` (msg < 31 bytes).
#[derive(Clone, PartialEq, Eq, Hash, Debug)]
pub enum PanicMsg {
    Short(String),
    Bytes(String),
}

#[derive(Clone, PartialEq, Eq, Hash, Debug)]
pub enum Arg {
    Val(Expr),
    Ref(usize),
}

#[derive(Clone, PartialEq, Eq, Hash, Debug)]
pub enum Stmt {
    Let(usize, Ty, Expr),
    /// `let (x1, .., xn) = e;` / `let S { m0: x1, .. } = e;` (the type is the tuple / struct type)
    LetTup(Vec<usize>, Ty, Expr),
    Expr(Expr),
}

#[derive(Clone, PartialEq, Eq, Hash, Debug)]
pub enum Expr {
    Lit(Ty, BigInt),
    Bool(bool),
    Var(usize),
    Un(Unop, Ty, Box<Expr>),
    Bin(Binop, Ty, Box<Expr>, Box<Expr>),
    AndAlso(Box<Expr>, Box<Expr>),
    OrElse(Box<Expr>, Box<Expr>),
    Cast(CastK, Ty, Ty, Box<Expr>),
    /// tuple / struct literal of the given type
    Tup(Ty, Vec<Expr>),
    /// member `i` of an aggregate of the given type
    Proj(Ty, usize, Box<Expr>),
    /// variant constructor of the given enum / Option / Result type
    Enum(Ty, usize, Box<Expr>),
    /// match on an enum of the given type; arm i binds variable `.0`
    Match(Ty, Box<Expr>, Vec<(usize, Expr)>),
    /// match on an integer / felt: arms for 0, 1, .. and the default
    MatchInt(Ty, Box<Expr>, Vec<Expr>, Box<Expr>),
    If(Box<Expr>, Box<Expr>, Box<Expr>),
    Block(Vec<Stmt>, Box<Expr>),
    Assign(usize, Box<Expr>),
    /// `loop { body }`; the number is the generator's bound on iterations (costing only)
    Loop(u32, Ty, Box<Expr>),
    While(u32, Box<Expr>, Box<Expr>),
    Break(Ty, Box<Expr>),
    Continue(Ty),
    Return(Ty, Box<Expr>),
    Call(usize, Vec<Arg>),
    Try(Box<Expr>),
    /// `.unwrap()` (None) or `.expect('msg')`; the bool says "on a Result"
    Unwrap(Option<String>, bool, Box<Expr>),
    Panic(Ty, PanicMsg),
    Assert(Box<Expr>, PanicMsg),
    ArrNew(Ty),
    ArrAppend(usize, Box<Expr>),
    ArrPop(usize),
    ArrLen(usize),
    ArrAt(usize, Box<Expr>),
    Snap(Box<Expr>),
    Desnap(Box<Expr>),
    /// `BoxTrait::new(e)` / `e.unbox()`
    BoxNew(Box<Expr>),
    Unbox(Box<Expr>),
    /// `a.wrapping_add(b)`, `overflowing_*`, `checked_*`, `saturating_*` on integers
    Arith(ArithK, Binop, Ty, Box<Expr>, Box<Expr>),
}

#[derive(Clone, Copy, PartialEq, Eq, Hash, Debug)]
pub enum ArithK {
    Wrapping,
    Overflowing,
    Checked,
    Saturating,
}
impl ArithK {
    pub fn name(self) -> &'static str {
        match self {
            ArithK::Wrapping => "wrapping",
            ArithK::Overflowing => "overflowing",
            ArithK::Checked => "checked",
            ArithK::Saturating => "saturating",
        }
    }
    pub fn coq(self) -> &'static str {
        match self {
            ArithK::Wrapping => "AWrapping",
            ArithK::Overflowing => "AOverflowing",
            ArithK::Checked => "AChecked",
            ArithK::Saturating => "ASaturating",
        }
    }
}

#[derive(Clone, PartialEq, Eq, Hash, Debug)]
pub struct Param {
    pub name: usize,
    pub ty: Ty,
    pub by_ref: bool,
}
#[derive(Clone, PartialEq, Eq, Hash, Debug)]
pub struct FnDecl {
    /// `#[inline(never)]` (Some(false)) / `#[inline(always)]` (Some(true))
    pub inline: Option<bool>,
    pub params: Vec<Param>,
    pub ret: Ty,
    pub body: Expr,
}
/// One generated program: type declarations, helper functions, entry = last function.
#[derive(Clone, PartialEq, Eq, Hash, Debug)]
pub struct Program {
    /// unique tag inside a crate (prefix of every item name)
    pub tag: String,
    pub structs: Vec<Vec<Ty>>,
    pub enums: Vec<Vec<Ty>>,
    pub fns: Vec<FnDecl>,
}

/// `H01_INJECT=<fault>`: used only to test that the check detects and shrinks a miscompilation.
pub fn inject() -> &'static str {
    static F: std::sync::OnceLock<String> = std::sync::OnceLock::new();
    F.get_or_init(|| std::env::var("H01_INJECT").unwrap_or_default()).as_str()
}

pub fn unit_expr() -> Expr {
    Expr::Tup(Ty::unit(), vec![])
}

// ------------------------------------------------------------------------------------------
// Cairo text
impl Program {
    pub fn entry(&self) -> usize {
        self.fns.len() - 1
    }
    pub fn fn_name(&self, i: usize) -> String {
        format!("{}_f{}", self.tag, i)
    }
    fn struct_name(&self, k: usize) -> String {
        format!("S{}_{}", self.tag, k)
    }
    fn enum_name(&self, k: usize) -> String {
        format!("E{}_{}", self.tag, k)
    }
    pub fn ty_cairo(&self, t: &Ty) -> String {
        match t {
            Ty::Int(i) => i.name().into(),
            Ty::Felt => "felt252".into(),
            Ty::Bool => "bool".into(),
            Ty::Tup(ts) => match ts.len() {
                0 => "()".into(),
                1 => format!("({},)", self.ty_cairo(&ts[0])),
                _ => format!("({})", ts.iter().map(|t| self.ty_cairo(t)).collect::<Vec<_>>().join(", ")),
            },
            Ty::Struct(k) => self.struct_name(*k),
            Ty::Enum(k) => self.enum_name(*k),
            Ty::Opt(t) => format!("Option<{}>", self.ty_cairo(t)),
            Ty::Res(t, e) => format!("Result<{}, {}>", self.ty_cairo(t), self.ty_cairo(e)),
            Ty::Arr(t) => format!("Array<{}>", self.ty_cairo(t)),
            Ty::Snap(t) => format!("@{}", self.ty_cairo(t)),
            Ty::Boxed(t) => format!("Box<{}>", self.ty_cairo(t)),
        }
    }
    /// members of a tuple / struct type
    pub fn members(&self, t: &Ty) -> Vec<Ty> {
        match t {
            Ty::Tup(ts) => ts.clone(),
            Ty::Struct(k) => self.structs[*k].clone(),
            Ty::Snap(t) => self.members(t),
            _ => panic!("members of {:?}", t),
        }
    }
    /// payload types of an enum-like type
    pub fn variants(&self, t: &Ty) -> Vec<Ty> {
        match t {
            Ty::Enum(k) => self.enums[*k].clone(),
            Ty::Opt(t) => vec![(**t).clone(), Ty::unit()],
            Ty::Res(t, e) => vec![(**t).clone(), (**e).clone()],
            Ty::Snap(t) => self.variants(t),
            _ => panic!("variants of {:?}", t),
        }
    }

    pub fn cairo(&self) -> String {
        let mut s = String::new();
        for (k, ms) in self.structs.iter().enumerate() {
            writeln!(s, "#[derive(Copy, Drop, PartialEq)]\nstruct {} {{", self.struct_name(k)).unwrap();
            for (i, m) in ms.iter().enumerate() {
                writeln!(s, "    m{}: {},", i, self.ty_cairo(m)).unwrap();
            }
            writeln!(s, "}}").unwrap();
        }
        for (k, vs) in self.enums.iter().enumerate() {
            writeln!(s, "#[derive(Copy, Drop, PartialEq)]\nenum {} {{", self.enum_name(k)).unwrap();
            for (i, v) in vs.iter().enumerate() {
                writeln!(s, "    V{}: {},", i, self.ty_cairo(v)).unwrap();
            }
            writeln!(s, "}}").unwrap();
        }
        for (i, f) in self.fns.iter().enumerate() {
            let ps: Vec<String> = f
                .params
                .iter()
                .map(|p| {
                    format!(
                        "{}v{}: {}",
                        if p.by_ref { "ref " } else { "mut " },
                        p.name,
                        self.ty_cairo(&p.ty)
                    )
                })
                .collect();
            match f.inline {
                Some(true) => s.push_str("#[inline(always)]\n"),
                Some(false) => s.push_str("#[inline(never)]\n"),
                None => {}
            }
            writeln!(s, "fn {}({}) -> {} {{", self.fn_name(i), ps.join(", "), self.ty_cairo(&f.ret)).unwrap();
            self.block_body(&mut s, &f.body, 1);
            writeln!(s, "}}").unwrap();
        }
        s
    }

    fn let_tup_pattern(&self, xs: &[usize], t: &Ty) -> String {
        match t {
            Ty::Struct(k) => format!(
                "let {} {{ {} }} = ",
                self.struct_name(*k),
                xs.iter().enumerate().map(|(i, x)| format!("m{}: mut v{}", i, x)).collect::<Vec<_>>().join(", ")
            ),
            _ => format!(
                "let ({}{}) = ",
                xs.iter().map(|x| format!("mut v{}", x)).collect::<Vec<_>>().join(", "),
                if xs.len() == 1 { "," } else { "" }
            ),
        }
    }

    fn ind(s: &mut String, d: usize) {
        for _ in 0..d {
            s.push_str("    ");
        }
    }

    /// prints `e` as the inside of a `{ }` (statements then tail), one statement per line
    fn block_body(&self, s: &mut String, e: &Expr, d: usize) {
        match e {
            Expr::Block(stmts, tail) => {
                for st in stmts {
                    Self::ind(s, d);
                    match st {
                        Stmt::Let(x, t, e) => {
                            write!(s, "let mut v{}: {} = ", x, self.ty_cairo(t)).unwrap();
                            self.expr_top(s, e, d);
                            s.push_str(";\n");
                        }
                        Stmt::LetTup(xs, t, e) => {
                            s.push_str(&self.let_tup_pattern(xs, t));
                            self.expr_top(s, e, d);
                            s.push_str(";\n");
                        }
                        Stmt::Expr(e) => {
                            self.expr_top(s, e, d);
                            s.push_str(";\n");
                        }
                    }
                }
                self.tail(s, tail, d);
            }
            _ => self.tail(s, e, d),
        }
    }
    fn tail(&self, s: &mut String, e: &Expr, d: usize) {
        Self::ind(s, d);
        self.expr_top(s, e, d);
        if matches!(e, Expr::Break(..) | Expr::Continue(..) | Expr::Return(..)) {
            s.push(';');
        }
        s.push('\n');
    }
    fn braces(&self, s: &mut String, e: &Expr, d: usize) {
        s.push_str("{\n");
        self.block_body(s, e, d + 1);
        Self::ind(s, d);
        s.push('}');
    }

    pub fn lit(&self, t: &Ty, z: &BigInt) -> String {
        match t {
            Ty::Int(i) => {
                if z.is_negative() { format!("(-{}_{})", z.abs(), i.name()) } else { format!("{}_{}", z, i.name()) }
            }
            Ty::Felt => format!("{}_felt252", z),
            _ => panic!("literal of {:?}", t),
        }
    }

    fn panic_call(&self, m: &PanicMsg) -> String {
        match m {
            PanicMsg::Short(t) => format!("core::panic_with_felt252('{}')", t),
            PanicMsg::Bytes(t) => format!("panic!(\"{}\")", t),
        }
    }

    /// operand position: block-like expressions are parenthesised (the parser does not accept
    /// `if {`, `if if`, `match match`, ... )
    pub fn expr(&self, s: &mut String, e: &Expr, d: usize) {
        let blocky = matches!(
            e,
            Expr::If(..) | Expr::Block(..) | Expr::Match(..) | Expr::MatchInt(..) | Expr::Loop(..) | Expr::While(..)
        ) || matches!(e, Expr::Proj(t, _, _) if !matches!(t, Ty::Struct(_)));
        if blocky {
            s.push('(');
            self.expr_top(s, e, d);
            s.push(')');
        } else {
            self.expr_top(s, e, d);
        }
    }

    /// statement / tail / initialiser position
    pub fn expr_top(&self, s: &mut String, e: &Expr, d: usize) {
        match e {
            Expr::Lit(t, z) => s.push_str(&self.lit(t, z)),
            Expr::Bool(b) => s.push_str(if *b { "true" } else { "false" }),
            Expr::Var(x) => write!(s, "v{}", x).unwrap(),
            Expr::Un(o, _, a) => {
                s.push_str(match o {
                    Unop::Neg => "(-(",
                    Unop::Not => "(!(",
                    Unop::BitNot => "(~(",
                });
                self.expr(s, a, d);
                s.push_str("))");
            }
            Expr::Bin(o, t, a, b) => {
                // test-only fault injection (simulated miscompilation): the TEXT deviates from the AST
                let (o2, a, b) = match inject() {
                    "mul_u16" if *o == Binop::Mul && *t == Ty::Int(Ity::U16) => (Binop::Add, a, b),
                    "lt_i8" if *o == Binop::Lt && *t == Ty::Int(Ity::I8) => (Binop::Le, a, b),
                    "swap_sub" if *o == Binop::Sub => (Binop::Sub, b, a),
                    _ => (*o, a, b),
                };
                s.push('(');
                self.expr(s, a, d);
                write!(s, " {} ", o2.cairo()).unwrap();
                self.expr(s, b, d);
                s.push(')');
            }
            Expr::AndAlso(a, b) => {
                s.push('(');
                self.expr(s, a, d);
                s.push_str(" && ");
                self.expr(s, b, d);
                s.push(')');
            }
            Expr::OrElse(a, b) => {
                s.push('(');
                self.expr(s, a, d);
                s.push_str(" || ");
                self.expr(s, b, d);
                s.push(')');
            }
            Expr::Cast(k, from, to, a) => {
                match k {
                    CastK::Into => write!(s, "Into::<{}, {}>::into(", self.ty_cairo(from), self.ty_cairo(to)).unwrap(),
                    CastK::Try => {
                        write!(s, "TryInto::<{}, {}>::try_into(", self.ty_cairo(from), self.ty_cairo(to)).unwrap()
                    }
                }
                self.expr(s, a, d);
                s.push(')');
            }
            Expr::Tup(t, es) => match t {
                Ty::Struct(k) => {
                    write!(s, "{} {{ ", self.struct_name(*k)).unwrap();
                    for (i, e) in es.iter().enumerate() {
                        write!(s, "m{}: ", i).unwrap();
                        self.expr(s, e, d);
                        s.push_str(", ");
                    }
                    s.push('}');
                }
                _ => {
                    s.push('(');
                    for (i, e) in es.iter().enumerate() {
                        if i > 0 {
                            s.push_str(", ");
                        }
                        self.expr(s, e, d);
                    }
                    if es.len() == 1 {
                        s.push(',');
                    }
                    s.push(')');
                }
            },
            Expr::Proj(t, i, a) => match t {
                Ty::Struct(_) => {
                    s.push('(');
                    self.expr(s, a, d);
                    write!(s, ").m{}", i).unwrap();
                }
                _ => {
                    // Cairo has no tuple indexing: destructure
                    let n = self.members(t).len();
                    let pat: Vec<String> =
                        (0..n).map(|j| if j == *i { "pj_".to_string() } else { "_".to_string() }).collect();
                    write!(s, "{{ let ({}{}) = ", pat.join(", "), if n == 1 { "," } else { "" }).unwrap();
                    self.expr(s, a, d);
                    s.push_str("; pj_ }");
                }
            },
            Expr::Enum(t, idx, a) => {
                match t {
                    Ty::Enum(k) => write!(s, "{}::V{}(", self.enum_name(*k), idx).unwrap(),
                    Ty::Opt(p) => {
                        if *idx == 0 {
                            write!(s, "Option::<{}>::Some(", self.ty_cairo(p)).unwrap()
                        } else {
                            // payload is the unit value by construction
                            write!(s, "Option::<{}>::None", self.ty_cairo(p)).unwrap();
                            return;
                        }
                    }
                    Ty::Res(p, q) => write!(
                        s,
                        "Result::<{}, {}>::{}(",
                        self.ty_cairo(p),
                        self.ty_cairo(q),
                        if *idx == 0 { "Ok" } else { "Err" }
                    )
                    .unwrap(),
                    _ => panic!("enum ctor of {:?}", t),
                }
                self.expr(s, a, d);
                s.push(')');
            }
            Expr::Match(t, a, arms) => {
                s.push_str("match ");
                self.expr(s, a, d);
                s.push_str(" {\n");
                for (i, (x, body)) in arms.iter().enumerate() {
                    Self::ind(s, d + 1);
                    match t {
                        Ty::Enum(k) => write!(s, "{}::V{}(mut v{})", self.enum_name(*k), i, x).unwrap(),
                        Ty::Opt(_) => {
                            if i == 0 {
                                write!(s, "Option::Some(mut v{})", x).unwrap()
                            } else {
                                write!(s, "Option::None").unwrap()
                            }
                        }
                        Ty::Res(..) => write!(s, "Result::{}(mut v{})", if i == 0 { "Ok" } else { "Err" }, x).unwrap(),
                        _ => panic!("match on {:?}", t),
                    }
                    s.push_str(" => ");
                    if matches!(t, Ty::Opt(_)) && i == 1 {
                        // the model binds the (unit) payload of None; keep the name defined
                        s.push_str("{\n");
                        Self::ind(s, d + 2);
                        writeln!(s, "let mut v{}: () = ();", x).unwrap();
                        self.block_body(s, body, d + 2);
                        Self::ind(s, d + 1);
                        s.push('}');
                    } else {
                        self.braces(s, body, d + 1);
                    }
                    s.push_str(",\n");
                }
                Self::ind(s, d);
                s.push('}');
            }
            Expr::MatchInt(_, a, arms, dflt) => {
                s.push_str("match ");
                self.expr(s, a, d);
                s.push_str(" {\n");
                for (i, body) in arms.iter().enumerate() {
                    Self::ind(s, d + 1);
                    write!(s, "{} => ", i).unwrap();
                    self.braces(s, body, d + 1);
                    s.push_str(",\n");
                }
                Self::ind(s, d + 1);
                s.push_str("_ => ");
                self.braces(s, dflt, d + 1);
                s.push_str(",\n");
                Self::ind(s, d);
                s.push('}');
            }
            Expr::If(c, a, b) => {
                s.push_str("if ");
                self.expr(s, c, d);
                s.push(' ');
                self.braces(s, a, d);
                s.push_str(" else ");
                self.braces(s, b, d);
            }
            Expr::Block(..) => self.braces(s, e, d),
            Expr::Assign(x, a) => {
                write!(s, "v{} = ", x).unwrap();
                self.expr(s, a, d);
            }
            Expr::Loop(_, _, body) => {
                s.push_str("loop {\n");
                self.stmt_body(s, body, d + 1);
                Self::ind(s, d);
                s.push('}');
            }
            Expr::While(_, c, body) => {
                s.push_str("while ");
                self.expr(s, c, d);
                s.push_str(" {\n");
                self.stmt_body(s, body, d + 1);
                Self::ind(s, d);
                s.push('}');
            }
            Expr::Break(_, a) => {
                if matches!(&**a, Expr::Tup(_, es) if es.is_empty()) {
                    s.push_str("break");
                } else {
                    s.push_str("break ");
                    self.expr(s, a, d);
                }
            }
            Expr::Continue(_) => s.push_str("continue"),
            Expr::Return(_, a) => {
                s.push_str("return ");
                self.expr(s, a, d);
            }
            Expr::Call(f, args) => {
                write!(s, "{}(", self.fn_name(*f)).unwrap();
                for (i, a) in args.iter().enumerate() {
                    if i > 0 {
                        s.push_str(", ");
                    }
                    match a {
                        Arg::Val(e) => self.expr(s, e, d),
                        Arg::Ref(x) => write!(s, "ref v{}", x).unwrap(),
                    }
                }
                s.push(')');
            }
            Expr::Try(a) => {
                s.push('(');
                self.expr(s, a, d);
                s.push_str(")?");
            }
            Expr::Unwrap(msg, _, a) => {
                s.push('(');
                self.expr(s, a, d);
                match msg {
                    None => s.push_str(").unwrap()"),
                    Some(m) => write!(s, ").expect('{}')", m).unwrap(),
                }
            }
            Expr::Panic(_, m) => s.push_str(&self.panic_call(m)),
            Expr::Assert(c, m) => match m {
                PanicMsg::Short(t) => {
                    s.push_str("assert(");
                    self.expr(s, c, d);
                    write!(s, ", '{}')", t).unwrap();
                }
                PanicMsg::Bytes(t) => {
                    s.push_str("assert!(");
                    self.expr(s, c, d);
                    write!(s, ", \"{}\")", t).unwrap();
                }
            },
            Expr::ArrNew(t) => write!(s, "ArrayTrait::<{}>::new()", self.ty_cairo(t)).unwrap(),
            Expr::ArrAppend(x, a) => {
                write!(s, "v{}.append(", x).unwrap();
                self.expr(s, a, d);
                s.push(')');
            }
            Expr::ArrPop(x) => write!(s, "v{}.pop_front()", x).unwrap(),
            Expr::ArrLen(x) => write!(s, "v{}.len()", x).unwrap(),
            Expr::ArrAt(x, i) => {
                write!(s, "(*v{}.at(", x).unwrap();
                self.expr(s, i, d);
                s.push_str("))");
            }
            Expr::Snap(a) => {
                s.push_str("(@");
                self.expr(s, a, d);
                s.push(')');
            }
            Expr::Desnap(a) => {
                s.push_str("(*");
                self.expr(s, a, d);
                s.push(')');
            }
            Expr::BoxNew(a) => {
                s.push_str("BoxTrait::new(");
                self.expr(s, a, d);
                s.push(')');
            }
            Expr::Unbox(a) => {
                s.push('(');
                self.expr(s, a, d);
                s.push_str(").unbox()");
            }
            Expr::Arith(k, o, t, a, b) => {
                let (tr, m) = match o {
                    Binop::Add => ("Add", "add"),
                    Binop::Sub => ("Sub", "sub"),
                    _ => ("Mul", "mul"),
                };
                let kn = k.name();
                let mut cap = kn.to_string();
                cap[..1].make_ascii_uppercase();
                write!(s, "core::num::traits::{}{}::<{}>::{}_{}(", cap, tr, self.ty_cairo(t), kn, m).unwrap();
                self.expr(s, a, d);
                s.push_str(", ");
                self.expr(s, b, d);
                s.push(')');
            }
        }
    }

    /// body of a loop: every part is a statement (the value is dropped)
    fn stmt_body(&self, s: &mut String, e: &Expr, d: usize) {
        match e {
            Expr::Block(stmts, tail) => {
                let b = Expr::Block(stmts.clone(), Box::new(unit_expr()));
                // print statements, then the tail as a statement
                if let Expr::Block(stmts, _) = &b {
                    for st in stmts {
                        Self::ind(s, d);
                        match st {
                            Stmt::Let(x, t, e) => {
                                write!(s, "let mut v{}: {} = ", x, self.ty_cairo(t)).unwrap();
                                self.expr_top(s, e, d);
                            }
                            Stmt::LetTup(xs, t, e) => {
                                s.push_str(&self.let_tup_pattern(xs, t));
                                self.expr_top(s, e, d);
                            }
                            Stmt::Expr(e) => self.expr_top(s, e, d),
                        }
                        s.push_str(";\n");
                    }
                }
                Self::ind(s, d);
                self.expr_top(s, tail, d);
                s.push_str(";\n");
            }
            _ => {
                Self::ind(s, d);
                self.expr_top(s, e, d);
                s.push_str(";\n");
            }
        }
    }
}

// ------------------------------------------------------------------------------------------
// Coq terms
pub fn coq_z(v: &BigInt) -> String {
    let big = v.abs() >= (BigInt::one() << 40);
    if v.is_negative() {
        if big { format!("(-0x{:x})", v.abs()) } else { format!("({})", v) }
    } else if big {
        format!("0x{:x}", v)
    } else {
        format!("{}", v)
    }
}

pub fn short_felt(s: &str) -> BigInt {
    let mut acc = BigInt::zero();
    for b in s.bytes() {
        acc = acc * 256 + BigInt::from(b);
    }
    acc
}
pub const BYTE_ARRAY_MAGIC: &str = "46a6158a16a947e5916b2a2ca68501a45e93d7110e81aa2d6438b1c57c879a3";

pub fn panic_data(m: &PanicMsg) -> Vec<BigInt> {
    match m {
        PanicMsg::Short(s) => vec![short_felt(s)],
        PanicMsg::Bytes(s) => vec![
            BigInt::parse_bytes(BYTE_ARRAY_MAGIC.as_bytes(), 16).unwrap(),
            BigInt::zero(),
            short_felt(s),
            BigInt::from(s.len()),
        ],
    }
}
fn coq_zlist(v: &[BigInt]) -> String {
    format!("[{}]", v.iter().map(coq_z).collect::<Vec<_>>().join("; "))
}

impl Program {
    pub fn ty_coq(&self, t: &Ty) -> String {
        match t {
            Ty::Int(i) => format!("(TInt {})", i.coq()),
            Ty::Felt => "TFelt".into(),
            Ty::Bool => "TBool".into(),
            Ty::Tup(ts) => format!("(TTup [{}])", ts.iter().map(|t| self.ty_coq(t)).collect::<Vec<_>>().join("; ")),
            Ty::Struct(k) => {
                format!("(TTup [{}])", self.structs[*k].iter().map(|t| self.ty_coq(t)).collect::<Vec<_>>().join("; "))
            }
            Ty::Enum(_) | Ty::Opt(_) | Ty::Res(..) => format!(
                "(TEnum [{}])",
                self.variants(t).iter().map(|t| self.ty_coq(t)).collect::<Vec<_>>().join("; ")
            ),
            Ty::Arr(t) => format!("(TArr {})", self.ty_coq(t)),
            Ty::Snap(t) => format!("(TSnap {})", self.ty_coq(t)),
            Ty::Boxed(t) => format!("(TBox {})", self.ty_coq(t)),
        }
    }

    pub fn expr_coq(&self, e: &Expr) -> String {
        let c = |e: &Expr| self.expr_coq(e);
        match e {
            Expr::Lit(t, z) => format!("(ELit {} {})", self.ty_coq(t), coq_z(z)),
            Expr::Bool(b) => format!("(EBool {})", b),
            Expr::Var(x) => format!("(EVar {})", x),
            Expr::Un(o, t, a) => format!(
                "(EUn {} {} {})",
                match o {
                    Unop::Neg => "Neg",
                    Unop::Not => "Not",
                    Unop::BitNot => "BitNot",
                },
                self.ty_coq(t),
                c(a)
            ),
            Expr::Bin(o, t, a, b) => format!("(EBin {} {} {} {})", o.coq(), self.ty_coq(t), c(a), c(b)),
            Expr::AndAlso(a, b) => format!("(EAndAlso {} {})", c(a), c(b)),
            Expr::OrElse(a, b) => format!("(EOrElse {} {})", c(a), c(b)),
            Expr::Cast(k, f, t, a) => format!(
                "(ECast {} {} {} {})",
                match k {
                    CastK::Into => "CInto",
                    CastK::Try => "CTry",
                },
                self.ty_coq(f),
                self.ty_coq(t),
                c(a)
            ),
            Expr::Tup(_, es) => format!("(ETup [{}])", es.iter().map(c).collect::<Vec<_>>().join("; ")),
            Expr::Proj(_, i, a) => format!("(EProj {} {})", i, c(a)),
            Expr::Enum(t, i, a) => format!("(EEnum {} {} {})", self.ty_coq(t), i, c(a)),
            Expr::Match(_, a, arms) => format!(
                "(EMatch {} [{}])",
                c(a),
                arms.iter().map(|(x, b)| format!("({}%nat, {})", x, c(b))).collect::<Vec<_>>().join("; ")
            ),
            Expr::MatchInt(_, a, arms, d) => {
                format!("(EMatchInt {} [{}] {})", c(a), arms.iter().map(c).collect::<Vec<_>>().join("; "), c(d))
            }
            Expr::If(x, a, b) => format!("(EIf {} {} {})", c(x), c(a), c(b)),
            Expr::Block(stmts, tail) => {
                let mut acc = c(tail);
                for st in stmts.iter().rev() {
                    acc = match st {
                        Stmt::Let(x, _, e) => format!("(ELet {} {} {})", x, c(e), acc),
                        Stmt::LetTup(xs, _, e) => format!(
                            "(ELetTup [{}] {} {})",
                            xs.iter().map(|x| format!("{}%nat", x)).collect::<Vec<_>>().join("; "),
                            c(e),
                            acc
                        ),
                        Stmt::Expr(e) => format!("(ESeq {} {})", c(e), acc),
                    };
                }
                acc
            }
            Expr::Assign(x, a) => format!("(EAssign {} {})", x, c(a)),
            Expr::Loop(_, t, b) => format!("(ELoop {} {})", self.ty_coq(t), c(b)),
            Expr::While(_, x, b) => format!("(EWhile {} {})", c(x), c(b)),
            Expr::Break(t, a) => format!("(EBreak {} {})", self.ty_coq(t), c(a)),
            Expr::Continue(t) => format!("(EContinue {})", self.ty_coq(t)),
            Expr::Return(t, a) => format!("(EReturn {} {})", self.ty_coq(t), c(a)),
            Expr::Call(f, args) => format!(
                "(ECall {} [{}])",
                f,
                args.iter()
                    .map(|a| match a {
                        Arg::Val(e) => format!("AVal {}", c(e)),
                        Arg::Ref(x) => format!("ARef {}", x),
                    })
                    .collect::<Vec<_>>()
                    .join("; ")
            ),
            Expr::Try(a) => format!("(ETry {})", c(a)),
            Expr::Unwrap(msg, is_res, a) => {
                let m = match msg {
                    Some(m) => short_felt(m),
                    None => short_felt(if *is_res { "Result::unwrap failed." } else { "Option::unwrap failed." }),
                };
                format!("(EUnwrap {} {})", coq_z(&m), c(a))
            }
            Expr::Panic(t, m) => format!("(EPanic {} {})", self.ty_coq(t), coq_zlist(&panic_data(m))),
            Expr::Assert(x, m) => format!("(EAssert {} {})", c(x), coq_zlist(&panic_data(m))),
            Expr::ArrNew(t) => format!("(EArrNew {})", self.ty_coq(t)),
            Expr::ArrAppend(x, a) => format!("(EArrAppend {} {})", x, c(a)),
            Expr::ArrPop(x) => format!("(EArrPop {})", x),
            Expr::ArrLen(x) => format!("(EArrLen {})", x),
            Expr::ArrAt(x, i) => format!("(EArrAt {} {})", x, c(i)),
            Expr::Snap(a) => format!("(ESnap {})", c(a)),
            Expr::Desnap(a) => format!("(EDesnap {})", c(a)),
            Expr::BoxNew(a) => format!("(EBox {})", c(a)),
            Expr::Unbox(a) => format!("(EUnbox {})", c(a)),
            Expr::Arith(k, o, t, a, b) => {
                format!("(EArith {} {} {} {} {})", k.coq(), o.coq(), self.ty_coq(t), c(a), c(b))
            }
        }
    }

    pub fn coq(&self) -> String {
        let fs: Vec<String> = self
            .fns
            .iter()
            .map(|f| {
                let ps: Vec<String> = f
                    .params
                    .iter()
                    .map(|p| {
                        format!("{{| pname := {}; pty := {}; pref := {} |}}", p.name, self.ty_coq(&p.ty), p.by_ref)
                    })
                    .collect();
                format!(
                    "{{| fparams := [{}]; fret := {};\n     fbody := {} |}}",
                    ps.join("; "),
                    self.ty_coq(&f.ret),
                    self.expr_coq(&f.body)
                )
            })
            .collect();
        format!("[\n  {}\n]", fs.join(";\n  "))
    }
}

impl Program {
    /// a value as Cairo text (arguments of a replay `main`)
    pub fn val_cairo(&self, t: &Ty, v: &Val) -> String {
        match (t, v) {
            (Ty::Int(_) | Ty::Felt, Val::Int(z)) => self.lit(t, z),
            (Ty::Bool, Val::Bool(b)) => format!("{b}"),
            (Ty::Tup(ts), Val::Tup(vs)) => {
                let xs: Vec<String> = ts.iter().zip(vs).map(|(t, v)| self.val_cairo(t, v)).collect();
                if xs.len() == 1 { format!("({},)", xs[0]) } else { format!("({})", xs.join(", ")) }
            }
            _ => "?".into(),
        }
    }
    /// the program followed by `fn main` calling the entry function on `args` (for cairo-run)
    pub fn replay_source(&self, args: &[Val]) -> String {
        let f = &self.fns[self.entry()];
        let a: Vec<String> = f.params.iter().zip(args).map(|(p, v)| self.val_cairo(&p.ty, v)).collect();
        format!(
            "{}fn main() -> {} {{\n    {}({})\n}}\n",
            self.cairo(),
            self.ty_cairo(&f.ret),
            self.fn_name(self.entry()),
            a.join(", ")
        )
    }
}

/// A run-time value of the subset (arguments of entry functions).
#[derive(Clone, PartialEq, Eq, Hash, Debug)]
pub enum Val {
    Int(BigInt),
    Bool(bool),
    Tup(Vec<Val>),
}
impl Val {
    pub fn coq(&self) -> String {
        match self {
            Val::Int(z) => format!("VInt {}", coq_z(z)),
            Val::Bool(b) => format!("VBool {}", b),
            Val::Tup(vs) => format!("VTup [{}]", vs.iter().map(|v| v.coq()).collect::<Vec<_>>().join("; ")),
        }
    }
    /// cells in the Sierra layout (before reduction mod P)
    pub fn flatten(&self, out: &mut Vec<BigInt>) {
        match self {
            Val::Int(z) => out.push(z.clone()),
            Val::Bool(b) => out.push(BigInt::from(*b as u8)),
            Val::Tup(vs) => vs.iter().for_each(|v| v.flatten(out)),
        }
    }
    pub fn show(&self) -> String {
        match self {
            Val::Int(z) => format!("{}", z),
            Val::Bool(b) => format!("{}", b),
            Val::Tup(vs) => format!("({})", vs.iter().map(|v| v.show()).collect::<Vec<_>>().join(", ")),
        }
    }
}
