//! Shared helpers: one splitmix64 PRNG (every random choice derives from `VERIF_SEED`), Coq term
//! printers, panic capture.
use num_bigint::{BigInt, Sign};
use num_traits::Zero;

pub struct Rng(pub u64);
impl Rng {
    pub fn from_env() -> Self {
        let seed = std::env::var("VERIF_SEED").ok().and_then(|s| s.parse::<u64>().ok()).unwrap_or(1);
        Rng(seed)
    }
    pub fn next(&mut self) -> u64 {
        self.0 = self.0.wrapping_add(0x9E3779B97F4A7C15);
        let mut z = self.0;
        z = (z ^ (z >> 30)).wrapping_mul(0xBF58476D1CE4E5B9);
        z = (z ^ (z >> 27)).wrapping_mul(0x94D049BB133111EB);
        z ^ (z >> 31)
    }
    pub fn below(&mut self, n: u64) -> u64 {
        if n == 0 { 0 } else { self.next() % n }
    }
    pub fn pick<'a, T>(&mut self, xs: &'a [T]) -> &'a T {
        &xs[self.below(xs.len() as u64) as usize]
    }
    pub fn bool(&mut self) -> bool {
        self.next() & 1 == 1
    }
    /// Uniform non-negative integer below 2^bits.
    pub fn bits(&mut self, bits: u32) -> BigInt {
        let mut v = BigInt::zero();
        let mut got = 0;
        while got < bits {
            v = (v << 64) + BigInt::from(self.next());
            got += 64;
        }
        v >> (got - bits)
    }
}

pub fn stark_prime() -> BigInt {
    (BigInt::from(1) << 251) + BigInt::from(17) * (BigInt::from(1) << 192) + 1
}

/// A Coq `Z` literal (always parenthesised).
pub fn coq_z(v: &BigInt) -> String {
    if v.sign() == Sign::Minus { format!("({})", v) } else { format!("{}", v) }
}
pub fn coq_zi(v: i128) -> String {
    if v < 0 { format!("({})", v) } else { format!("{}", v) }
}
pub fn coq_bool(b: bool) -> &'static str {
    if b { "true" } else { "false" }
}
pub fn coq_opt(o: Option<String>) -> String {
    match o {
        Some(s) => format!("(Some {})", s),
        None => "None".into(),
    }
}
pub fn coq_list(xs: &[String]) -> String {
    format!("[{}]", xs.join("; "))
}

/// Runs `f`, turning a panic into `Err(location: message)`.
pub fn catch<T>(f: impl FnOnce() -> T + std::panic::UnwindSafe) -> Result<T, String> {
    std::panic::catch_unwind(f).map_err(|e| {
        if let Some(s) = e.downcast_ref::<&str>() {
            s.to_string()
        } else if let Some(s) = e.downcast_ref::<String>() {
            s.clone()
        } else {
            "panic".to_string()
        }
    })
}

/// Silences the default panic hook (panics are data here) but records `file:line` of the last one.
pub fn quiet_panics() {
    std::panic::set_hook(Box::new(|info| {
        let loc = info.location().map(|l| format!("{}:{}", l.file(), l.line())).unwrap_or_default();
        if std::env::var("VERIF_LOUD").is_ok() {
            eprintln!("panic at {}: {}", loc, info);
        }
        LAST_PANIC.with(|c| *c.borrow_mut() = loc);
    }));
}
thread_local! { pub static LAST_PANIC: std::cell::RefCell<String> = const { std::cell::RefCell::new(String::new()) }; }
pub fn last_panic_location() -> String {
    LAST_PANIC.with(|c| c.borrow().clone())
}
